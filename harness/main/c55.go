//go:build verif

package main

// C55 — backups that skip source items are reported as incomplete. Two sub-streams:
//   perm   the REAL binary (this executable without the harness variable) runs `backup --json` as
//          an unprivileged child (setpriv 65534) on a local repository against trees with
//          unreadable files / directories: real permission faults, real main(), real exit status;
//   inject in-process `backup --json` (CLI toolkit) with backupFSTestHook wrapping the local FS:
//          injected errno per item and operation (vanish before lstat, EIO on lstat, vanish /
//          EACCES on open, fstat error, type change after open, read error, readdir error,
//          incomplete metadata).
// Records (preorder, the target directory first):
//   mode perm|inject
//   item <depth> <hexname> dir <lstat> <open> <readdir> <metaFault>
//   item <depth> <hexname> file|socket|special <lstat> <open> <fstat> <typeChanged> <read> <metaFault>
//   exit <code>      snapshot <0/1>      snap <hexpath>*      err <hexpath>*   (paths relative to the target's parent)
import (
	"bufio"
	"bytes"
	"context"
	"encoding/json"
	"fmt"
	"os"
	"os/exec"
	"path/filepath"
	"sort"
	"strings"
	"syscall"
	"time"

	"github.com/restic/restic/internal/backend/mem"
	"github.com/restic/restic/internal/data"
	"github.com/restic/restic/internal/fs"
	"github.com/restic/restic/internal/repository"
	"github.com/restic/restic/internal/restic"
	"golang.org/x/sys/unix"
)

var _ = verifRegister("C55", streamC55)

type c55Item struct {
	name     string
	kind     string // dir file socket special
	special  string // symlink fifo
	mode     uint32 // perm stream
	children []*c55Item
	// faults (ok / enoent / other)
	lstat, open, fstat, read, readdir string
	typeChanged, metaFault            bool
	empty                             bool // regular file without content
}

func (it *c55Item) init() {
	it.lstat, it.open, it.fstat, it.read, it.readdir = "ok", "ok", "ok", "ok", "ok"
}

func (h *H) c55Gen(depth int, budget *int, name string) *c55Item {
	d := &c55Item{name: name, kind: "dir"}
	d.init()
	n := 1 + h.Intn(5)
	for i := 0; i < n && *budget > 0; i++ {
		*budget--
		nm := fmt.Sprintf("%c%d", "abcdefgh"[h.Intn(8)], i)
		switch k := h.Intn(10); {
		case k < 5:
			c := &c55Item{name: nm, kind: "file", empty: h.Intn(4) == 0}
			c.init()
			d.children = append(d.children, c)
		case k < 8 && depth < 3:
			d.children = append(d.children, h.c55Gen(depth+1, budget, nm))
		case k < 9:
			c := &c55Item{name: nm, kind: "special", special: []string{"symlink", "fifo"}[h.Intn(2)]}
			c.init()
			d.children = append(d.children, c)
		default:
			c := &c55Item{name: nm, kind: "socket"}
			c.init()
			d.children = append(d.children, c)
		}
	}
	return d
}

func c55Create(it *c55Item, path string) {
	switch it.kind {
	case "dir":
		if err := os.Mkdir(path, 0755); err != nil {
			panic(err)
		}
		for _, c := range it.children {
			c55Create(c, filepath.Join(path, c.name))
		}
	case "file":
		content := []byte("content of " + it.name + strings.Repeat("x", len(it.name)*37))
		if it.empty {
			content = nil
		}
		if err := os.WriteFile(path, content, 0644); err != nil {
			panic(err)
		}
	case "socket":
		if err := unix.Mknod(path, unix.S_IFSOCK|0644, 0); err != nil {
			panic(err)
		}
	case "special":
		if it.special == "symlink" {
			if err := os.Symlink("target-of-"+it.name, path); err != nil {
				panic(err)
			}
		} else if err := unix.Mkfifo(path, 0644); err != nil {
			panic(err)
		}
	}
}

func (h *H) c55Emit(it *c55Item, depth int) {
	if it.kind == "dir" {
		h.Rec("item", Itoa(depth), HexS(it.name), "dir", it.lstat, it.open, it.readdir, B(it.metaFault))
		for _, c := range it.children {
			h.c55Emit(c, depth+1)
		}
		return
	}
	h.Rec("item", Itoa(depth), HexS(it.name), it.kind, it.lstat, it.open, it.fstat, B(it.typeChanged), it.read, B(it.metaFault))
}

// ---------------------------------------------------------------- perm: modes -> expected faults

// c55Perm draws permission bits (owner root, the backup runs as uid/gid 65534, so the "other"
// bits decide) and records which operation of the unprivileged backup must fail.
func (h *H) c55Perm(it *c55Item, parentSearchable bool, top bool) {
	if !parentSearchable {
		it.lstat = "other" // lstat needs search permission on the parent
	}
	switch it.kind {
	case "file":
		it.mode = 0644
		if h.Intn(4) == 0 {
			it.mode = []uint32{0600, 0000, 0640, 0200}[h.Intn(4)]
			it.open = "other"
			it.empty = h.Bool() // an unreadable file with no content must be reported as well
		}
	case "dir":
		it.mode = 0755
		searchable := true
		p := 6
		if top {
			p = 25
		}
		switch h.Intn(p) {
		case 0:
			it.mode = []uint32{0700, 0000, 0750}[h.Intn(3)]
			it.open, searchable = "other", false
		case 1:
			it.mode = 0711 // search only: cannot be opened for reading
			it.open = "other"
		case 2:
			it.mode = 0744 // readable but not searchable: listing works, every child fails at lstat
			searchable = false
		}
		for _, c := range it.children {
			h.c55Perm(c, searchable, false)
		}
	}
}

func c55Chmod(it *c55Item, path string) {
	if it.kind == "dir" {
		for _, c := range it.children {
			c55Chmod(c, filepath.Join(path, c.name))
		}
	}
	if (it.kind == "file" && it.mode != 0644) || (it.kind == "dir" && it.mode != 0755) {
		if err := os.Chmod(path, os.FileMode(it.mode)); err != nil {
			panic(err)
		}
	}
}

// ---------------------------------------------------------------- inject: fault-injecting FS

type c55FS struct {
	fs.FS
	faults map[string]*c55Item // absolute path -> item
}

func (f *c55FS) OpenFile(name string, flag int, metadataOnly bool) (fs.File, error) {
	inner, err := f.FS.OpenFile(name, flag, metadataOnly)
	if err != nil {
		return nil, err
	}
	abs, _ := filepath.Abs(name)
	it := f.faults[abs]
	if it == nil {
		return inner, nil
	}
	return &c55File{File: inner, it: it, name: name, readable: !metadataOnly}, nil
}

type c55File struct {
	fs.File
	it       *c55Item
	name     string
	readable bool
	reads    int
}

func c55Errno(op, name, kind string) error {
	if kind == "enoent" {
		return &os.PathError{Op: op, Path: name, Err: syscall.ENOENT}
	}
	return &os.PathError{Op: op, Path: name, Err: syscall.EIO}
}

func (f *c55File) Stat() (*fs.ExtendedFileInfo, error) {
	if !f.readable {
		if f.it.lstat != "ok" {
			return nil, c55Errno("lstat", f.name, f.it.lstat)
		}
		return f.File.Stat()
	}
	if f.it.kind == "file" && f.it.fstat != "ok" {
		return nil, c55Errno("fstat", f.name, f.it.fstat)
	}
	fi, err := f.File.Stat()
	if err == nil && f.it.kind == "file" && f.it.typeChanged {
		c := *fi
		c.Mode = os.ModeNamedPipe | 0644
		return &c, nil
	}
	return fi, err
}

func (f *c55File) MakeReadable() error {
	if f.it.open != "ok" {
		return c55Errno("open", f.name, f.it.open)
	}
	err := f.File.MakeReadable()
	if err == nil {
		f.readable = true
	}
	return err
}

func (f *c55File) Read(p []byte) (int, error) {
	if f.it.read != "ok" {
		f.reads++
		if f.reads > 1 || len(p) == 0 {
			return 0, c55Errno("read", f.name, "other")
		}
		n, _ := f.File.Read(p[:min(len(p), 7)])
		return n, nil
	}
	return f.File.Read(p)
}

func (f *c55File) Readdirnames(n int) ([]string, error) {
	if f.it.readdir != "ok" {
		return nil, c55Errno("readdirent", f.name, f.it.readdir)
	}
	return f.File.Readdirnames(n)
}

func (f *c55File) ToNode(ignoreXattrListError bool, warnf func(format string, args ...any)) (*data.Node, error) {
	node, err := f.File.ToNode(ignoreXattrListError, warnf)
	if err == nil && f.it.metaFault {
		return node, &os.PathError{Op: "listxattr", Path: f.name, Err: syscall.EIO}
	}
	return node, err
}

// c55All lists the items of a tree in preorder.
func c55All(it *c55Item, out *[]*c55Item) {
	*out = append(*out, it)
	for _, c := range it.children {
		c55All(c, out)
	}
}

// c55Inject draws faults: p = 1 gives the item itself a fault for sure (single-fault trees make
// the exit status depend on that one fault), otherwise every item gets one with probability 1/p.
func (h *H) c55Inject(it *c55Item, top bool) {
	h.c55InjectP(it, top, 4)
}

func (h *H) c55InjectOne(root *c55Item) {
	var all []*c55Item
	c55All(root, &all)
	it := all[h.Intn(len(all))]
	if it == root && h.Intn(4) != 0 && len(all) > 1 {
		it = all[1+h.Intn(len(all)-1)]
	}
	saved := it.children
	it.children = nil
	h.c55InjectP(it, false, 1)
	it.children = saved
}

func (h *H) c55InjectP(it *c55Item, top bool, p int) {
	if top {
		p = 30
	}
	if h.Intn(p) != 0 {
		if it.kind == "dir" {
			for _, c := range it.children {
				h.c55Inject(c, false)
			}
		}
		return
	}
	switch it.kind {
	case "dir":
		switch h.Intn(6) {
		case 0:
			it.lstat = "enoent"
		case 1:
			it.lstat = "other"
		case 2:
			it.open = []string{"other", "enoent"}[h.Intn(2)]
		case 3:
			it.readdir = "other"
		case 4:
			it.metaFault = true
		default:
			it.metaFault = true
			it.readdir = "other"
		}
		for _, c := range it.children {
			h.c55Inject(c, false)
		}
	case "file":
		switch h.Intn(8) {
		case 0:
			it.lstat = "enoent"
		case 1:
			it.lstat = "other"
		case 2:
			it.open = "other"
		case 3:
			it.open = "enoent" // vanished after the lstat: reported
		case 4:
			it.fstat = "other"
		case 5:
			it.typeChanged = true
		case 6:
			it.read = "other"
		default:
			it.metaFault = true
			if h.Bool() {
				it.read = "other"
			}
		}
	default:
		switch h.Intn(3) {
		case 0:
			it.lstat = "enoent"
		case 1:
			it.lstat = "other"
		default:
			if it.kind == "special" {
				it.metaFault = true
			}
		}
	}
}

func c55Index(it *c55Item, path string, m map[string]*c55Item) {
	m[path] = it
	for _, c := range it.children {
		c55Index(c, filepath.Join(path, c.name), m)
	}
}

// ---------------------------------------------------------------- running and observing

type c55Msg struct {
	MessageType string `json:"message_type"`
	During      string `json:"during"`
	Item        string `json:"item"`
	SnapshotID  string `json:"snapshot_id"`
	Path        string `json:"path"`
	StructType  string `json:"struct_type"`
}

func c55ParseJSON(out string) (errs []string, snapID string, paths []string) {
	sc := bufio.NewScanner(strings.NewReader(out))
	sc.Buffer(make([]byte, 1<<20), 1<<24)
	for sc.Scan() {
		var m c55Msg
		if json.Unmarshal(sc.Bytes(), &m) != nil {
			continue
		}
		switch {
		case m.MessageType == "error" && m.During == "archival":
			errs = append(errs, m.Item)
		case m.MessageType == "summary":
			snapID = m.SnapshotID
		case m.StructType == "node" || (m.MessageType == "node"):
			paths = append(paths, m.Path)
		}
	}
	return
}

func (h *H) c55Report(base string, exit int, snapshot bool, errs, paths []string) {
	rel := func(p string) string {
		r, err := filepath.Rel(base, p)
		if err != nil {
			return p
		}
		return r
	}
	h.Rec("exit", Itoa(exit))
	h.Rec("snapshot", B(snapshot))
	var e, s []string
	for _, p := range errs {
		e = append(e, HexS(rel(p)))
	}
	for _, p := range paths {
		s = append(s, HexS(rel(p)))
	}
	sort.Strings(e)
	sort.Strings(s)
	h.Rec("err", e...)
	h.Rec("snap", s...)
}

func c55SnapPaths(repo *repository.Repository, id restic.ID, prefix string, out *[]string) {
	tree, err := data.LoadTree(context.Background(), repo, id)
	if err != nil {
		panic(err)
	}
	for item := range tree {
		if item.Error != nil {
			panic(item.Error)
		}
		p := prefix + "/" + item.Node.Name
		*out = append(*out, p)
		if item.Node.Type == data.NodeTypeDir && item.Node.Subtree != nil {
			c55SnapPaths(repo, *item.Node.Subtree, p, out)
		}
	}
}

func c55MakeRemovable(dir string) {
	_ = filepath.Walk(dir, func(p string, fi os.FileInfo, err error) error {
		if fi != nil && fi.IsDir() {
			_ = os.Chmod(p, 0700)
		}
		return nil
	})
	_ = os.RemoveAll(dir)
}

func streamC55(h *H) {
	n := h.N(40, 1500)
	var childRepo string
	self, _ := os.Executable()
	_, errSetpriv := exec.LookPath("setpriv")
	for i := 0; i < n; i++ {
		if i%3 == 0 && errSetpriv == nil {
			if childRepo == "" {
				childRepo = h.c55ChildInit(self)
			}
			if childRepo != "-" {
				h.c55PermCase(self, childRepo)
				continue
			}
		}
		h.c55InjectCase()
	}
}

var c55ChildTmp string // scratch directory owned by uid 65534 (temporary pack files of the child)

func c55ChildEnv() []string {
	return []string{"PATH=" + os.Getenv("PATH"), "RESTIC_PASSWORD=geheim", "HOME=" + c55ChildTmp, "TMPDIR=" + c55ChildTmp}
}

func c55Child(asNobody bool, self string, args ...string) (stdout string, exit int, err error) {
	ctx, cancel := context.WithTimeout(context.Background(), 180*time.Second)
	defer cancel()
	var cmd *exec.Cmd
	if asNobody {
		full := append([]string{"--reuid=65534", "--regid=65534", "--clear-groups", "--", self}, args...)
		cmd = exec.CommandContext(ctx, "setpriv", full...)
	} else {
		cmd = exec.CommandContext(ctx, self, args...)
	}
	cmd.Env = c55ChildEnv()
	var out, errb bytes.Buffer
	cmd.Stdout, cmd.Stderr = &out, &errb
	e := cmd.Run()
	if cmd.ProcessState == nil {
		return out.String(), -1, e
	}
	if ctx.Err() != nil {
		return out.String(), -1, ctx.Err()
	}
	return out.String() + "\n" + errb.String(), cmd.ProcessState.ExitCode(), nil
}

// c55ChildInit creates a local repository owned by uid 65534 and initialises it with the real binary.
func (h *H) c55ChildInit(self string) string {
	_ = os.Chmod(verifTmpRoot(), 0755) // the unprivileged child must be able to traverse the scratch root
	repo := MkTemp("c55repo-")
	_ = os.Chmod(repo, 0755)
	if err := os.Chown(repo, 65534, 65534); err != nil {
		return "-"
	}
	c55ChildTmp = MkTemp("c55tmp-")
	if err := os.Chown(c55ChildTmp, 65534, 65534); err != nil {
		return "-"
	}
	if _, exit, err := c55Child(true, self, "-r", repo, "--no-cache", "init"); err != nil || exit != 0 {
		return "-"
	}
	return repo
}

func (h *H) c55PermCase(self, repo string) {
	budget := 3 + h.Intn(14)
	root := h.c55Gen(0, &budget, "src")
	h.c55Perm(root, true, true)
	work := MkTemp("c55-")
	_ = os.Chmod(work, 0755)
	defer c55MakeRemovable(work)
	src := filepath.Join(work, "src")
	withParent := h.Intn(2) == 0
	if withParent && h.Intn(3) != 0 {
		// make sure some file WITHOUT content becomes unreadable after the parent snapshot
		var all []*c55Item
		c55All(root, &all)
		var fl []*c55Item
		for _, it := range all {
			if it.kind == "file" {
				fl = append(fl, it)
			}
		}
		if len(fl) > 0 {
			it := fl[h.Intn(len(fl))]
			it.mode, it.open, it.empty = 0, "other", true
		}
	}
	c55Create(root, src)
	h.Case("perm")
	h.Rec("mode", "perm")
	h.Rec("target", "abs")
	if withParent {
		// first a complete backup of the still readable tree (it becomes the parent snapshot), then
		// the permissions change: unchanged files are taken from the parent without being opened,
		// files whose mode changed (new ctime) must be opened again
		h.Rec("parent", "1")
		if _, exit0, err0 := c55Child(true, self, "-r", repo, "--no-cache", "--json", "backup", src); err0 != nil || exit0 != 0 {
			h.Rec("hang", HexS(fmt.Sprintf("parent backup failed: %v exit %d", err0, exit0)))
			h.End()
			return
		}
		time.Sleep(12 * time.Millisecond)
	}
	c55Chmod(root, src)
	h.c55Emit(root, 0)
	args := []string{"-r", repo, "--no-cache", "--json", "backup", src}
	if h.Intn(5) == 0 {
		args = append(args, src) // the same target twice: still one source tree
		h.Rec("duptarget", "1")
	}
	out, exit, err := c55Child(true, self, args...)
	if err != nil {
		h.Rec("hang", HexS(err.Error()))
		h.End()
		return
	}
	errs, snapID, _ := c55ParseJSON(out)
	if exit != 0 && exit != 3 {
		h.Rec("childout", HexS(c01Tail(out)))
	}
	var paths []string
	if snapID != "" {
		lsOut, lsExit, lsErr := c55Child(false, self, "-r", repo, "--no-cache", "--json", "ls", snapID)
		if lsErr != nil || lsExit != 0 {
			h.Rec("ls-error", Itoa(lsExit))
		}
		_, _, paths = c55ParseJSON(lsOut)
		// ls lists the parents of the target as well; keep what lies below the work directory
		var keep []string
		for _, p := range paths {
			if strings.HasPrefix(p, src) {
				keep = append(keep, p)
			}
		}
		paths = keep
	}
	h.c55Report(work, exit, snapID != "", errs, paths)
	h.End()
}

func (h *H) c55InjectCase() {
	budget := 3 + h.Intn(14)
	root := h.c55Gen(0, &budget, "src")
	dup := h.Intn(5) == 0
	switch {
	case dup && h.Bool(): // a complete backup with the target named twice
	case h.Bool():
		h.c55InjectOne(root)
	default:
		h.c55Inject(root, true)
	}
	work := MkTemp("c55-")
	defer c55MakeRemovable(work)
	src := filepath.Join(work, "src")
	c55Create(root, src)
	faults := map[string]*c55Item{}
	c55Index(root, src, faults)
	h.Case("inject")
	h.Rec("mode", "inject")
	rel := h.Intn(4) == 0 // relative one-component target: the root tree holds the target's node only
	h.Rec("target", map[bool]string{true: "rel", false: "abs"}[rel])
	h.c55Emit(root, 0)
	be := mem.New()
	cli := NewCLI(be)
	cli.MustRun("init")
	backupFSTestHook = func(inner fs.FS) fs.FS { return &c55FS{FS: inner, faults: faults} }
	ctx, cancel := context.WithTimeout(context.Background(), 120*time.Second)
	target, snapPrefix, snapBase := src, src, work
	if rel {
		cwd, _ := os.Getwd()
		if err := os.Chdir(work); err != nil {
			panic(err)
		}
		defer os.Chdir(cwd)
		target, snapPrefix, snapBase = "src", "/src", "/"
	}
	bargs := []string{"--json", "backup", target}
	if dup {
		bargs = append(bargs, target) // the same target twice
		h.Rec("duptarget", "1")
	}
	res := cli.RunCtx(ctx, bargs...)
	cancel()
	backupFSTestHook = nil
	if res.Panic != "" {
		h.Rec("panic", HexS(res.Panic))
		h.End()
		return
	}
	errs, snapID, _ := c55ParseJSON(res.Stdout + "\n" + res.Stderr)
	var paths []string
	repo := cli.OpenRepo()
	if err := repo.LoadIndex(context.Background(), restic.NoopTerminalCounterFactory); err != nil {
		panic(err)
	}
	nsnap := 0
	_ = data.ForAllSnapshots(context.Background(), repo, repo, nil, func(id restic.ID, sn *data.Snapshot, err error) error {
		if err == nil {
			nsnap++
			c55SnapPaths(repo, *sn.Tree, "", &paths)
		}
		return nil
	})
	// the snapshot contains the parents of the target; keep what lies below the work directory
	var keep []string
	for _, p := range paths {
		if strings.HasPrefix(p, snapPrefix) {
			r, _ := filepath.Rel(snapBase, p)
			keep = append(keep, filepath.Join(work, r))
		}
	}
	if (snapID != "") != (nsnap > 0) {
		h.Rec("inconsistent", "summary-vs-repository")
	}
	for i, e := range errs { // relative targets: some items are reported relative to the working directory
		if !filepath.IsAbs(e) {
			errs[i] = filepath.Join(work, e)
		}
	}
	h.c55Report(work, res.Exit, nsnap > 0, errs, keep)
	h.End()
}
