//go:build verif && (darwin || freebsd || linux)

package main

import (
	"context"
	"math"
	"sort"
	"sync"

	"github.com/restic/restic/internal/backend"
	"github.com/restic/restic/internal/data"
	"github.com/restic/restic/internal/fuse"
	"github.com/restic/restic/internal/repository"
	"github.com/restic/restic/internal/restic"
)

var _ = verifRegister("C46", streamC46)

// C46: real file.Open / openFile.Read (internal/fuse/file.go) over an in-memory repository.
// Records per case:
//   blob <index size | -> <hex content> <loads 0/1>    one per entry of node.Content, in order
//   nodesize <declared node.Size>
//   open ok <size after Open> | open err <hex msg>
//   rd <goroutine> <offset(int64)> <size> ok <hex data> | err | panic

type c46Layout struct {
	blobs [][]byte
	fail  map[int]bool // content entries whose pack is removed before the first read
	miss  map[int]bool // content entries that are never stored (Open must fail)
}

func c46GenLayout(h *H) c46Layout {
	var l c46Layout
	n := 0
	switch h.Intn(10) {
	case 0:
		n = 0
	case 1:
		n = 1
	default:
		n = 1 + h.Intn(7)
	}
	style := h.Intn(6)
	for i := 0; i < n; i++ {
		var sz int
		switch style {
		case 0: // many empty blobs
			if h.Intn(2) == 0 {
				sz = 0
			} else {
				sz = 1 + h.Intn(5)
			}
		case 1: // tiny
			sz = h.Intn(4)
		case 2: // all the same size
			sz = 8
		case 3: // one larger blob among small ones
			if h.Intn(3) == 0 {
				sz = 200 + h.Intn(800)
			} else {
				sz = h.Intn(20)
			}
		default:
			sz = h.Intn(48)
			if h.Intn(6) == 0 {
				sz = 0
			}
		}
		if h.Thorough() && h.Intn(40) == 0 {
			sz = 3000 + h.Intn(6000)
		}
		b := h.Bytes(sz)
		// repeated blob: same content (same id) as an earlier entry
		if i > 0 && h.Intn(6) == 0 {
			b = l.blobs[h.Intn(i)]
		}
		l.blobs = append(l.blobs, b)
	}
	return l
}

func c46Save(repo *repository.Repository, bufs [][]byte) []restic.ID {
	ids := make([]restic.ID, len(bufs))
	err := repo.WithBlobUploader(context.Background(), func(ctx context.Context, up restic.BlobSaverWithAsync) error {
		for i, b := range bufs {
			id, _, _, err := up.SaveBlob(ctx, restic.DataBlob, b, restic.ID{}, false)
			if err != nil {
				return err
			}
			ids[i] = id
		}
		return nil
	})
	if err != nil {
		panic(err)
	}
	return ids
}

type c46Read struct {
	off int64
	n   int
}

// reads around position p: offsets p-2..p+2, sizes around the distances to the following
// boundaries, zero, the whole file and more than the file.
func c46ReadsAround(p int64, cum []int64, total int64) []c46Read {
	var res []c46Read
	sizes := map[int]bool{0: true, 1: true, 2: true, 3: true, int(total): true, int(total) + 5: true, int(total) + 4096: true}
	for _, c := range cum {
		if c >= p {
			for d := int64(-2); d <= 2; d++ {
				if c-p+d >= 0 {
					sizes[int(c-p+d)] = true
				}
			}
		}
	}
	var sl []int
	for s := range sizes {
		sl = append(sl, s)
	}
	sort.Ints(sl)
	if len(sl) > 24 { // keep the smallest and the largest ones
		sl = append(sl[:16], sl[len(sl)-8:]...)
	}
	for d := int64(-2); d <= 2; d++ {
		if p+d < 0 {
			continue
		}
		for _, s := range sl {
			res = append(res, c46Read{p + d, s})
		}
	}
	return res
}

func c46DoRead(f *fuse.VerifC46File, r c46Read) []string {
	var out []byte
	var err error
	panicked, _ := Protect(func() {
		out, err = f.Read(context.Background(), r.off, r.n)
	})
	switch {
	case panicked:
		return []string{I64(r.off), Itoa(r.n), "panic"}
	case err != nil:
		return []string{I64(r.off), Itoa(r.n), "err", HexS(err.Error())}
	default:
		return []string{I64(r.off), Itoa(r.n), "ok", Hex(out)}
	}
}

func streamC46(h *H) {
	ctx := context.Background()
	repo, be := NewRepo(0, repository.Options{})
	nLayouts := h.N(150, 3000)
	damaged := false
	// concurrent readers under eviction pressure (large blobs), once per shard
	c46Pressure(h, "pressure", false)
	// Opens that return early followed by re-opens of the same node
	for i := h.N(60, 1500); i > 0; i-- {
		c46Reopen(h, repo)
	}
	for li := 0; li < nLayouts; li++ {
		l := c46GenLayout(h)
		kind := "layout"
		switch r := h.Intn(12); {
		case r == 0 && len(l.blobs) > 0:
			kind = "fail"
		case r == 1 && len(l.blobs) > 0:
			kind = "missing"
		case r == 2 || r == 3:
			kind = "conc"
		}
		// a fresh repository now and then, always for a case that removes packs and after it
		// (blobs of later layouts with the same content would otherwise point into the removed pack)
		if li%50 == 49 || kind == "fail" || damaged {
			repo, be = NewRepo(0, repository.Options{})
			damaged = kind == "fail"
		}
		var ids []restic.ID
		loads := make([]bool, len(l.blobs))
		for i := range loads {
			loads[i] = true
		}
		found := make([]bool, len(l.blobs))
		for i := range found {
			found[i] = true
		}
		switch kind {
		case "fail":
			// every blob in its own pack, then the pack of one entry disappears
			for _, b := range l.blobs {
				ids = append(ids, c46Save(repo, [][]byte{b})[0])
			}
			k := h.Intn(len(ids))
			for _, pb := range repo.LookupBlob(restic.BlobHandle{Type: restic.DataBlob, ID: ids[k]}) {
				_ = be.Remove(ctx, backend.Handle{Type: backend.PackFile, Name: pb.PackID().String()})
			}
			for i := range ids {
				if ids[i] == ids[k] {
					loads[i] = false
				}
			}
		case "missing":
			ids = c46Save(repo, l.blobs)
			k := h.Intn(len(ids))
			unknown := restic.Hash(append([]byte("c46-not-stored-"), h.Bytes(16)...))
			ids[k] = unknown
			found[k] = false
		default:
			ids = c46Save(repo, l.blobs)
		}

		var total int64
		cum := []int64{0}
		for _, b := range l.blobs {
			total += int64(len(b))
			cum = append(cum, total)
		}
		declared := uint64(total)
		switch h.Intn(8) {
		case 0:
			declared = 0
		case 1:
			declared = uint64(total) + uint64(1+h.Intn(10))
		case 2:
			declared = uint64(h.Intn(int(total) + 1))
		}
		node := &data.Node{Name: "f", Type: data.NodeTypeFile, Mode: 0644, Size: declared, Content: ids}
		// cache sizes: roomy, or so small that concurrent readers evict each other's blobs
		cacheSize := 1 << 20
		if h.Intn(3) == 0 {
			cacheSize = 2 * (96 + 64)
		}

		header := func(sub string) {
			h.Case(sub)
			for i, b := range l.blobs {
				sz := "-"
				if found[i] {
					s, ok := repo.LookupBlobSize(restic.BlobHandle{Type: restic.DataBlob, ID: ids[i]})
					if ok {
						sz = Itoa(int(s))
					}
				}
				h.Rec("blob", sz, Hex(b), B(loads[i]))
			}
			h.Rec("nodesize", U64(declared))
		}

		var f *fuse.VerifC46File
		var oerr error
		panicked, _ := Protect(func() { f, oerr = fuse.VerifC46Open(ctx, repo, cacheSize, node) })
		if panicked || oerr != nil {
			header(kind)
			if panicked {
				h.Rec("open", "panic")
			} else {
				h.Rec("open", "err", HexS(oerr.Error()))
			}
			h.End()
			continue
		}

		// distinct boundaries, plus a group for special offsets
		var bounds []int64
		for i, c := range cum {
			if i == 0 || c != cum[i-1] {
				bounds = append(bounds, c)
			}
		}
		if h.Thorough() && len(bounds) > 3 {
			// thorough has many more layouts; sample boundaries per layout to bound the volume
			h.Rng.Shuffle(len(bounds), func(i, j int) { bounds[i], bounds[j] = bounds[j], bounds[i] })
			bounds = bounds[:3]
		}
		switch kind {
		case "conc":
			// G goroutines read different groups at the same time through the same handle
			header(kind)
			h.Rec("open", "ok", U64(f.Size()))
			G := 2 + h.Intn(4)
			results := make([][][]string, G)
			var wg sync.WaitGroup
			for g := 0; g < G; g++ {
				p := bounds[h.Intn(len(bounds))]
				reads := c46ReadsAround(p, cum, total)
				h.Rng.Shuffle(len(reads), func(i, j int) { reads[i], reads[j] = reads[j], reads[i] })
				if len(reads) > 30 {
					reads = reads[:30]
				}
				wg.Add(1)
				go func(g int, reads []c46Read) {
					defer wg.Done()
					for _, r := range reads {
						results[g] = append(results[g], c46DoRead(f, r))
					}
				}(g, reads)
			}
			wg.Wait()
			for g := range results {
				for _, r := range results[g] {
					h.Rec("rd", append([]string{Itoa(g)}, r...)...)
				}
			}
			h.End()
		default:
			for _, p := range bounds {
				header(kind)
				h.Rec("open", "ok", U64(f.Size()))
				for _, r := range c46ReadsAround(p, cum, total) {
					h.Rec("rd", append([]string{"0"}, c46DoRead(f, r)...)...)
				}
				h.End()
			}
			// special offsets: negative, far beyond the end, random pairs
			header(kind)
			h.Rec("open", "ok", U64(f.Size()))
			special := []c46Read{{-1, 4}, {math.MinInt64, 7}, {math.MaxInt64, 3}, {total + 1000000, 10}, {total, 0}, {0, 0}}
			for i := 0; i < 12; i++ {
				special = append(special, c46Read{int64(h.Intn(int(total) + 3)), h.Intn(int(total) + 6)})
			}
			for _, r := range special {
				h.Rec("rd", append([]string{"0"}, c46DoRead(f, r)...)...)
			}
			h.End()
		}
	}
}
