//go:build verif

package main

// C41 — trees are encoded deterministically and without loss.
//
// Sub-streams of "C41":
//   node   real json.Marshal / json.Unmarshal of data.Node (MarshalJSON / UnmarshalJSON) on
//          generated nodes; the stdlib oracles (strconv.Quote/Unquote, utf8.ValidString,
//          json.Marshal/Unmarshal of the method-less struct) are computed next to it.
//   tree   real TreeJSONBuilder and NewTreeNodeIterator on generated node lists (sorted, unsorted,
//          duplicate names) and on documents with unknown keys around "nodes".
//   saver  real treeSaver.save (shim) with futures completing in a random order.
//
// Node token layout (18 tokens): name lt raw|nil mY mRest aY aRest cY cRest typ user group error
//   xattrs(n:v,…) generic(k:v,…) nums(csv) content(nil|-|id,id) subtree(nil|id)

import (
	"bytes"
	"context"
	"encoding/hex"
	"encoding/json"
	"errors"
	"fmt"
	"math/rand"
	"os"
	"sort"
	"strconv"
	"strings"
	"time"
	"unicode/utf8"

	"github.com/restic/restic/internal/archiver"
	"github.com/restic/restic/internal/data"
	"github.com/restic/restic/internal/restic"
)

var _ = verifRegister("C41", streamC41)

// the struct encoding/json sees inside MarshalJSON / UnmarshalJSON (no methods)
type c41NodeJSON data.Node

func c41hex(b []byte) string {
	if len(b) == 0 {
		return "-"
	}
	return hex.EncodeToString(b)
}

func c41Time(t time.Time) (string, string) {
	return strconv.Itoa(t.Year()), HexS(t.Format("01-02T15:04:05.999999999Z07:00"))
}

func c41Tok(n *data.Node) []string {
	raw := "nil"
	if n.LinkTargetRaw != nil {
		raw = c41hex(n.LinkTargetRaw)
	}
	my, mr := c41Time(n.ModTime)
	ay, ar := c41Time(n.AccessTime)
	cy, cr := c41Time(n.ChangeTime)
	var xs []string
	for _, a := range n.ExtendedAttributes {
		xs = append(xs, c41hex([]byte(a.Name))+":"+c41hex(a.Value))
	}
	var gs []string
	var keys []string
	for k := range n.GenericAttributes {
		keys = append(keys, string(k))
	}
	sort.Strings(keys)
	for _, k := range keys {
		gs = append(gs, c41hex([]byte(k))+":"+c41hex(n.GenericAttributes[data.GenericAttributeType(k)]))
	}
	nums := []string{U64(uint64(n.Mode)), U64(uint64(n.UID)), U64(uint64(n.GID)), U64(n.Inode), U64(n.DeviceID), U64(n.Size), U64(n.Links), U64(n.Device)}
	content := "nil"
	if n.Content != nil {
		var cs []string
		for _, id := range n.Content {
			cs = append(cs, id.String()[:16])
		}
		content = strings.Join(cs, ",")
	}
	sub := "nil"
	if n.Subtree != nil {
		sub = n.Subtree.String()[:16]
	}
	return []string{HexS(n.Name), HexS(n.LinkTarget), raw, my, mr, ay, ar, cy, cr,
		HexS(string(n.Type)), HexS(n.User), HexS(n.Group), HexS(n.Error),
		strings.Join(xs, ","), strings.Join(gs, ","), strings.Join(nums, ","), content, sub}
}

// --- generators ------------------------------------------------------------------------------

var c41Pieces = []string{
	"a", "file", "Z", "0", " ", ".", "..", "/", "\\", "\"", "'", "\x00", "\x01", "\x1f", "\x7f", "\n", "\t", "\r",
	"\u2028", "\u2029", "\u00e9", "\u65e5\u672c", "\U0001F600", "\ufeff", "\ufffd", "<", ">", "&", "\\u0041", "\\x41", "\\\"", "%", "{", "}", "[", "]", ",", ":",
	"\xff", "\xfe", "\x80", "\xc3", "\xe2\x82", "\xf0\x9f", "\xc0\xaf", "\xed\xa0\x80",
}

// c41Str: a byte string; validOnly restricts to valid UTF-8
func c41Str(rng *rand.Rand, validOnly bool, maxLen int) string {
	switch rng.Intn(12) {
	case 0:
		return ""
	case 1:
		// plain ascii name
		return fmt.Sprintf("f%03d.txt", rng.Intn(1000))
	case 2:
		// random bytes
		if !validOnly {
			b := make([]byte, 1+rng.Intn(12))
			rng.Read(b)
			return string(b)
		}
	case 3:
		if maxLen > 64 {
			// long value
			n := 1000 + rng.Intn(maxLen)
			var sb strings.Builder
			for sb.Len() < n {
				p := c41Pieces[rng.Intn(len(c41Pieces))]
				if validOnly && !utf8.ValidString(p) {
					p = "y"
				}
				sb.WriteString(p)
			}
			return sb.String()
		}
	}
	var sb strings.Builder
	k := 1 + rng.Intn(6)
	for i := 0; i < k; i++ {
		p := c41Pieces[rng.Intn(len(c41Pieces))]
		if validOnly && !utf8.ValidString(p) {
			p = "x"
		}
		sb.WriteString(p)
	}
	return sb.String()
}

func c41GenTime(rng *rand.Rand) (time.Time, bool) {
	zones := []*time.Location{time.UTC, time.FixedZone("", 5*3600+1800), time.FixedZone("PST", -8*3600), time.FixedZone("X", 0), time.FixedZone("", 14*3600)}
	loc := zones[rng.Intn(len(zones))]
	switch rng.Intn(14) {
	case 0:
		return time.Time{}, true
	case 1: // boundary years, in range
		y := []int{0, 1, 9999, 1970, 2262, 2263, 1677, 1}[rng.Intn(8)]
		return time.Date(y, time.Month(1+rng.Intn(12)), 1+rng.Intn(28), rng.Intn(24), rng.Intn(60), rng.Intn(60), rng.Intn(1e9), time.UTC), true
	case 2: // out of range (no 29 February: AddDate would normalise it, see docs)
		y := []int{-1, -5, -2000, 10000, 12000, 99999}[rng.Intn(6)]
		return time.Date(y, time.Month(1+rng.Intn(12)), 1+rng.Intn(28), rng.Intn(24), rng.Intn(60), rng.Intn(60), rng.Intn(1e9), time.UTC), false
	}
	sec := int64(rng.Intn(4e9)) - 1e9
	ns := int64(0)
	switch rng.Intn(3) {
	case 0:
		ns = int64(rng.Intn(1e9))
	case 1:
		ns = int64(rng.Intn(1000)) * 1e6
	}
	return time.Unix(sec, ns).In(loc), true
}

type c41Gen struct {
	node       *data.Node
	invalid    []string // plain-string fields with invalid UTF-8
	timesOK    bool
	genericOK  bool
	labels     []string
}

var c41Types = []data.NodeType{data.NodeTypeFile, data.NodeTypeDir, data.NodeTypeSymlink, data.NodeTypeDev, data.NodeTypeCharDev, data.NodeTypeFifo, data.NodeTypeSocket, data.NodeTypeIrregular, data.NodeTypeInvalid}

func c41GenNode(rng *rand.Rand, big int, plainValid bool) *c41Gen {
	g := &c41Gen{timesOK: true, genericOK: true}
	n := &data.Node{}
	n.Name = c41Str(rng, false, big)
	n.Type = c41Types[rng.Intn(len(c41Types))]
	if rng.Intn(3) == 0 {
		n.LinkTarget = c41Str(rng, false, big)
	}
	var ok bool
	n.ModTime, ok = c41GenTime(rng)
	g.timesOK = g.timesOK && ok
	n.AccessTime, ok = c41GenTime(rng)
	g.timesOK = g.timesOK && ok
	n.ChangeTime, ok = c41GenTime(rng)
	g.timesOK = g.timesOK && ok
	// plain-string fields: mostly valid
	pv := func() bool { return plainValid || rng.Intn(8) != 0 }
	mark := func(field, s string) string {
		if !utf8.ValidString(s) {
			g.invalid = append(g.invalid, field)
		}
		return s
	}
	if rng.Intn(2) == 0 {
		n.User = mark("user", c41Str(rng, pv(), 0))
	}
	if rng.Intn(2) == 0 {
		n.Group = mark("group", c41Str(rng, pv(), 0))
	}
	if rng.Intn(6) == 0 {
		n.Error = mark("error", c41Str(rng, pv(), 0))
	}
	if rng.Intn(30) == 0 && !plainValid {
		// a type string from a newer restic (types are ASCII constants, so valid UTF-8)
		n.Type = data.NodeType(mark("type", c41Str(rng, true, 0)))
	}
	big64 := []uint64{0, 1, 255, 1<<31 - 1, 1 << 32, 1<<53 + 1, 1<<63 - 1, 1<<64 - 1}
	u64 := func() uint64 {
		if rng.Intn(3) == 0 {
			return big64[rng.Intn(len(big64))]
		}
		return uint64(rng.Intn(100000))
	}
	n.Mode = os.FileMode(uint32(u64()))
	n.UID, n.GID = uint32(u64()), uint32(u64())
	n.Inode, n.DeviceID, n.Size, n.Links, n.Device = u64(), u64(), u64(), u64(), u64()
	switch rng.Intn(4) {
	case 0:
		n.Content = nil
	case 1:
		n.Content = restic.IDs{}
	default:
		for i := 0; i <= rng.Intn(3); i++ {
			n.Content = append(n.Content, restic.Hash([]byte{byte(rng.Intn(256))}))
		}
	}
	if rng.Intn(3) == 0 {
		id := restic.Hash([]byte{byte(rng.Intn(256)), 1})
		if rng.Intn(10) == 0 {
			id = restic.ID{}
		}
		n.Subtree = &id
	}
	if rng.Intn(3) == 0 {
		seen := map[string]bool{}
		for i := 0; i <= rng.Intn(3); i++ {
			name := c41Str(rng, pv(), 0)
			if seen[name] {
				continue
			}
			seen[name] = true
			if !utf8.ValidString(name) {
				g.invalid = append(g.invalid, "xattr-name")
			}
			var v []byte
			switch rng.Intn(4) {
			case 0:
				v = nil
			case 1:
				v = []byte{}
			case 2:
				v = []byte(c41Str(rng, false, big))
			default:
				v = make([]byte, rng.Intn(40))
				rng.Read(v)
			}
			n.ExtendedAttributes = append(n.ExtendedAttributes, data.ExtendedAttribute{Name: name, Value: v})
		}
	}
	if rng.Intn(4) == 0 {
		n.GenericAttributes = map[data.GenericAttributeType]json.RawMessage{}
		keys := []data.GenericAttributeType{data.TypeCreationTime, data.TypeFileAttributes, data.TypeSecurityDescriptor, "linux.future", "x.<k>"}
		for i := 0; i <= rng.Intn(3); i++ {
			k := keys[rng.Intn(len(keys))]
			var v any
			switch rng.Intn(5) {
			case 0:
				v = uint32(rng.Intn(1 << 20))
			case 1:
				b := make([]byte, rng.Intn(20))
				rng.Read(b)
				v = b
			case 2:
				v = c41Str(rng, true, 0)
			case 3:
				v = map[string]any{"a": []int{1, 2}, "<b>": c41Str(rng, true, 0)}
			default:
				v = nil
			}
			js, err := json.Marshal(v)
			if err != nil {
				panic(err)
			}
			if rng.Intn(25) == 0 {
				// not in the form json.Marshal produces (restic never writes this)
				js = append([]byte(" "), js...)
				g.genericOK = false
			}
			n.GenericAttributes[k] = js
		}
	}
	sort.Strings(g.invalid)
	g.node = n
	return g
}

func c41Dedup(l []string) []string {
	var r []string
	for i, s := range l {
		if i == 0 || s != l[i-1] {
			r = append(r, s)
		}
	}
	return r
}

// --- node stream -----------------------------------------------------------------------------

func c41NodeCase(h *H, big int) {
	g := c41GenNode(h.Rng, big, false)
	n := g.node
	h.Case("node")
	h.Rec("in", c41Tok(n)...)
	q := strconv.Quote(n.Name)
	h.Rec("oq", HexS(q))
	h.Rec("ov", B(utf8.ValidString(n.LinkTarget)))
	h.Rec("invalid", c41Dedup(g.invalid)...)
	h.Rec("hyp", B(g.timesOK), B(g.genericOK))
	// the harness's replica of what MarshalJSON hands to encoding/json (only to obtain the oracle value)
	nj := c41NodeJSON(*n)
	nj.ModTime, nj.AccessTime, nj.ChangeTime = data.VerifC41FixTime(n.ModTime), data.VerifC41FixTime(n.AccessTime), data.VerifC41FixTime(n.ChangeTime)
	nj.Name = q[1 : len(q)-1]
	if !utf8.ValidString(n.LinkTarget) {
		nj.LinkTargetRaw = []byte(n.LinkTarget)
	}
	njn := data.Node(nj)
	h.Rec("nj", c41Tok(&njn)...)
	if enc, err := json.Marshal(nj); err != nil {
		h.Rec("enc", "err")
	} else {
		h.Rec("enc", "ok", Hex(enc))
	}
	// the implementation
	var out []byte
	var err error
	if p, _ := Protect(func() { out, err = json.Marshal(n) }); p {
		h.Rec("impl", "panic")
		h.End()
		return
	}
	if err != nil {
		h.Rec("impl", "err")
		h.End()
		return
	}
	h.Rec("impl", "ok", Hex(out))
	var dj c41NodeJSON
	if err := json.Unmarshal(out, &dj); err != nil {
		h.Rec("dj", "err")
	} else {
		djn := data.Node(dj)
		h.Rec("dj", append([]string{"ok"}, c41Tok(&djn)...)...)
		if uq, err := strconv.Unquote(`"` + dj.Name + `"`); err != nil {
			h.Rec("ouq", "err")
		} else {
			h.Rec("ouq", "ok", HexS(uq))
		}
	}
	var dec data.Node
	var derr error
	if p, _ := Protect(func() { derr = json.Unmarshal(out, &dec) }); p {
		h.Rec("dec", "panic")
	} else if derr != nil {
		h.Rec("dec", "err")
	} else {
		h.Rec("dec", append([]string{"ok"}, c41Tok(&dec)...)...)
		// encoding the decoded node again must not panic and must give the same bytes
		var again []byte
		if p, _ := Protect(func() { again, err = json.Marshal(&dec) }); p {
			h.Rec("again", "panic")
		} else if err != nil {
			h.Rec("again", "err")
		} else {
			h.Rec("again", B(bytes.Equal(again, out)))
		}
	}
	h.End()
}

// --- tree stream -----------------------------------------------------------------------------

func c41SimpleNode(rng *rand.Rand, name string) *data.Node {
	g := c41GenNode(rng, 0, true)
	g.node.Name = name
	g.node.GenericAttributes = nil
	// keep times in range so that re-encoding the decoded node gives the same bytes
	for _, t := range []*time.Time{&g.node.ModTime, &g.node.AccessTime, &g.node.ChangeTime} {
		if t.Year() < 0 || t.Year() > 9999 {
			*t = time.Unix(1700000000, 0).UTC()
		}
	}
	return g.node
}

func c41TreeCase(h *H, big int) {
	rng := h.Rng
	k := rng.Intn(7)
	if rng.Intn(12) == 0 {
		k = 20 + rng.Intn(40)
	}
	seen := map[string]bool{}
	var names []string
	for len(names) < k {
		s := c41Str(rng, false, big)
		if rng.Intn(3) == 0 {
			s = fmt.Sprintf("n%02d", rng.Intn(50))
		}
		if s == "" || seen[s] {
			if rng.Intn(4) != 0 {
				continue
			}
		}
		seen[s] = true
		names = append(names, s)
	}
	label := "sorted"
	switch rng.Intn(6) {
	case 0:
		label = "insertion-order" // as generated: usually unsorted
	case 1:
		sort.Strings(names)
		if len(names) > 0 {
			names = append(names, names[rng.Intn(len(names))])
			sort.Strings(names)
			label = "duplicate-name"
		}
	default:
		sort.Strings(names)
	}
	var nodes []*data.Node
	for _, nm := range names {
		nodes = append(nodes, c41SimpleNode(rng, nm))
	}
	h.Case("tree")
	var encs [][]byte
	for _, n := range nodes {
		enc, err := json.Marshal(n)
		if err != nil {
			panic(err)
		}
		encs = append(encs, enc)
		h.Rec("n", HexS(n.Name), Hex(enc))
	}
	b := data.NewTreeJSONBuilder()
	var berr error
	for _, n := range nodes {
		if berr = b.AddNode(n); berr != nil {
			break
		}
	}
	var doc []byte
	if berr != nil {
		if errors.Is(berr, data.ErrTreeNotOrdered) {
			h.Rec("built", "err-order")
		} else {
			h.Rec("built", "err-other")
		}
		h.Rec("label", label)
		h.End()
		return
	}
	doc, _ = b.Finalize()
	h.Rec("built", "ok", Hex(doc))
	// the document given to the iterator: as built, or with unknown members around "nodes"
	in := doc
	if rng.Intn(2) == 0 {
		label += ",unknown-keys"
		// values of every JSON kind, including the string "nodes", strings that look like
		// structure, nested objects with a "nodes" key, arrays of strings "nodes"
		vals := []string{`1`, `"x"`, `"]}\"{"`, `{"nodes":[{"name":"no"}]}`, `[1,[2,{"a":"]"}]]`, `null`, `-1.5e3`, `{}`, `[]`, `"\\"`, `true`,
			`"nodes"`, `"nodes"`, `["nodes"]`, `["nodes",{"nodes":"nodes"}]`, `{"k":"nodes"}`, `{"nodes":"nodes"}`, `"\"nodes\":["`, `""`, `false`, `0`,
			`[[],[[]],{"a":{}}]`, `"\u006eodes"`, `" nodes"`, `[null,true,"}"]`}
		var pre, post []string
		npre, npost := rng.Intn(4), rng.Intn(4)
		if npre+npost == 0 {
			npre = 1
		}
		keys := []string{"k%d", "contains%d", "nodes_%d", "Nodes%d", "node%ds"}
		for i := 0; i < npre; i++ {
			pre = append(pre, fmt.Sprintf(`"`+keys[rng.Intn(len(keys))]+`":%s`, i, vals[rng.Intn(len(vals))]))
		}
		for i := 0; i < npost; i++ {
			post = append(post, fmt.Sprintf(`"z`+keys[rng.Intn(len(keys))]+`": %s`, i, vals[rng.Intn(len(vals))]))
		}
		body := doc[len(`{"nodes":[`) : len(doc)-len("]}\n")]
		var sb bytes.Buffer
		sb.WriteString("{")
		for _, p := range pre {
			sb.WriteString(p + ", ")
		}
		sb.WriteString(`"nodes" : [`)
		sb.Write(body)
		sb.WriteString("]")
		for _, p := range post {
			sb.WriteString(" ," + p)
		}
		sb.WriteString("}")
		in = sb.Bytes()
	}
	h.Rec("doc", Hex(in))
	it, err := data.NewTreeNodeIterator(bytes.NewReader(in))
	if err != nil {
		h.Rec("it", "initerr")
	} else {
		status := "ok"
		var dns []string
		for item := range it {
			if item.Error != nil {
				status = "itererr"
				break
			}
			dn, err := json.Marshal(item.Node)
			if err != nil {
				status = "remarshal-err"
				break
			}
			dns = append(dns, Hex(dn))
		}
		h.Rec("it", status)
		h.Rec("dn", dns...)
	}
	h.Rec("label", label)
	h.End()
}

// --- saver stream ----------------------------------------------------------------------------

func c41SaverCase(h *H) {
	rng := h.Rng
	k := rng.Intn(8)
	var names []string
	seen := map[string]bool{}
	for len(names) < k {
		s := c41Str(rng, false, 0)
		if s == "" || seen[s] {
			continue
		}
		seen[s] = true
		names = append(names, s)
	}
	sort.Strings(names)
	label := "sorted"
	var items []archiver.VerifC41Item
	var keys []int
	for i, nm := range names {
		items = append(items, archiver.VerifC41Item{Node: c41SimpleNode(rng, nm)})
		keys = append(keys, i)
	}
	// disturbances
	nd := rng.Intn(3)
	for d := 0; d < nd && len(items) > 0; d++ {
		i := rng.Intn(len(items))
		switch rng.Intn(6) {
		case 0: // identical duplicate directly behind the original
			if items[i].Node != nil {
				cp := *items[i].Node
				items = append(items[:i+1], append([]archiver.VerifC41Item{{Node: &cp}}, items[i+1:]...)...)
				keys = append(keys[:i+1], append([]int{keys[i]}, keys[i+1:]...)...)
				label = "identical-duplicate"
			}
		case 1: // same name, different node
			if items[i].Node != nil {
				cp := *items[i].Node
				cp.Size++
				items = append(items[:i+1], append([]archiver.VerifC41Item{{Node: &cp}}, items[i+1:]...)...)
				keys = append(keys[:i+1], append([]int{1000 + d}, keys[i+1:]...)...)
				label = "different-duplicate"
			}
		case 2:
			items[i] = archiver.VerifC41Item{}
			label = "excluded"
		case 3:
			items[i] = archiver.VerifC41Item{Err: errors.New("read failed"), Ignore: true}
			label = "ignored-error"
		case 4:
			items[i] = archiver.VerifC41Item{Err: errors.New("read failed")}
			label = "item-error"
		case 5:
			j := rng.Intn(len(items))
			items[i], items[j] = items[j], items[i]
			keys[i], keys[j] = keys[j], keys[i]
			label = "swapped"
		}
	}
	order := rng.Perm(len(items))
	h.Case("saver")
	for i, it := range items {
		switch {
		case it.Err != nil:
			h.Rec("f", "failed", "0", B(it.Ignore))
		case it.Node == nil:
			h.Rec("f", "excluded")
		default:
			enc, err := json.Marshal(it.Node)
			if err != nil {
				panic(err)
			}
			h.Rec("f", "node", HexS(it.Node.Name), Hex(enc), Itoa(keys[i]))
		}
	}
	var os_ []string
	for _, o := range order {
		os_ = append(os_, Itoa(o))
	}
	h.Rec("order", os_...)
	ctx, cancel := context.WithTimeout(context.Background(), 30*time.Second)
	defer cancel()
	var buf []byte
	var calls int
	var err error
	if p, _ := Protect(func() { buf, calls, err = archiver.VerifC41TreeSave(ctx, items, order, false) }); p {
		h.Rec("res", "panic")
	} else if err != nil {
		kind := "item"
		if errors.Is(err, data.ErrTreeNotOrdered) {
			kind = "order"
		} else if errors.Is(err, context.Canceled) || errors.Is(err, context.DeadlineExceeded) {
			kind = "canceled"
		}
		h.Rec("res", "err", kind)
	} else {
		h.Rec("res", "ok", Hex(buf), Itoa(calls))
	}
	h.Rec("label", label)
	h.End()
}

func streamC41(h *H) {
	big := 0
	if h.Thorough() {
		big = 4096
	}
	n := h.N(500, 50000)
	for i := 0; i < n; i++ {
		b := 0
		if big > 0 && i%50 == 0 {
			b = big
		}
		if h.Thorough() && i%5000 == 17 {
			b = 1 << 20
		}
		c41NodeCase(h, b)
	}
	m := h.N(150, 5000)
	for i := 0; i < m; i++ {
		c41TreeCase(h, 0)
	}
	s := h.N(150, 5000)
	for i := 0; i < s; i++ {
		c41SaverCase(h)
	}
}
