//go:build verif

package main

// C07 — unpacked files (index, snapshot, lock, config) decode to what was saved.
//
// Sub-streams:
//   rt   real saveUnpacked (shim for index/lock/config, public SaveUnpacked for snapshots) followed
//        by the real LoadUnpacked on in-memory repositories of both format versions, all
//        compression modes, with and without the extra verification;
//   bad  hand-built stored files (plaintext sealed with the repository key by the harness, every
//        first byte 0..255, truncated / damaged ciphertexts) read back with the real LoadUnpacked.
//
// Oracles handed to the Lean model: `plain` = decryption of the stored bytes done by the harness
// with crypto.Key directly; `zdec` = decoding by an independent zstd decoder instance.

import (
	"context"
	"errors"
	"strings"

	"github.com/klauspost/compress/zstd"

	"github.com/restic/restic/internal/backend"
	"github.com/restic/restic/internal/repository"
	"github.com/restic/restic/internal/repository/crypto"
	"github.com/restic/restic/internal/restic"
)

var _ = verifRegister("C07", streamC07)
var _ = verifRegisterFacts(repository.VerifFactsC07)

type c07Repo struct {
	repo    *repository.Repository
	be      backend.Backend
	version uint
	mode    repository.CompressionMode
	nev     bool
}

func c07ErrClass(err error) string {
	if err == nil {
		return "ok"
	}
	msg := err.Error()
	switch {
	case errors.Is(err, restic.ErrInvalidData):
		return "invalidData"
	case strings.Contains(msg, "decryption failed"):
		return "verifyDecrypt"
	case strings.Contains(msg, "decompression failed"):
		return "verifyDecompress"
	case strings.Contains(msg, "data mismatch"):
		return "verifyMismatch"
	case strings.Contains(msg, "file, too short"):
		return "tooShort"
	case errors.Is(err, crypto.ErrUnauthenticated), strings.Contains(msg, "nonce is invalid"),
		strings.Contains(msg, "trying to decrypt invalid data"), strings.Contains(msg, "invalid key"):
		return "openFailed"
	case strings.Contains(msg, "not supported encoding format"):
		return "unsupported"
	case strings.Contains(msg, "does not exist"), strings.Contains(msg, "already exists"):
		return "backend"
	}
	return "zstd"
}

func streamC07(h *H) {
	ctx := context.Background()
	dec, err := zstd.NewReader(nil)
	if err != nil {
		panic(err)
	}
	enc, err := zstd.NewWriter(nil)
	if err != nil {
		panic(err)
	}
	modes := []repository.CompressionMode{repository.CompressionAuto, repository.CompressionOff,
		repository.CompressionMax, repository.CompressionFastest, repository.CompressionBetter}
	modeName := map[repository.CompressionMode]string{repository.CompressionAuto: "auto", repository.CompressionOff: "off",
		repository.CompressionMax: "max", repository.CompressionFastest: "fastest", repository.CompressionBetter: "better"}
	var repos []*c07Repo
	for _, v := range []uint{1, 2} {
		for _, m := range modes {
			for _, nev := range []bool{false, true} {
				if nev && m != repository.CompressionAuto && m != repository.CompressionOff {
					continue
				}
				repo, be := NewRepo(v, repository.Options{Compression: m, NoExtraVerify: nev})
				repos = append(repos, &c07Repo{repo: repo, be: be, version: v, mode: m, nev: nev})
			}
		}
	}
	types := []restic.FileType{restic.IndexFile, restic.SnapshotFile, restic.LockFile, restic.ConfigFile}
	handle := func(t restic.FileType, id restic.ID) backend.Handle {
		hd := backendHandle(t, id)
		if t == restic.ConfigFile {
			hd.Name = ""
		}
		return hd
	}
	loadRaw := func(r *c07Repo, t restic.FileType, id restic.ID) []byte {
		buf, err := r.repo.LoadRaw(ctx, t, id)
		if err != nil && buf == nil {
			return nil
		}
		return buf
	}
	// records shared by both sub-streams: cfg, stored, plain oracle, zdec oracles, load result
	emitCommon := func(r *c07Repo, t restic.FileType, id restic.ID, stored []byte) {
		h.Rec("stored", Hex(stored))
		var plain []byte
		if len(stored) < 16 {
			h.Rec("plain", "short")
		} else {
			// crypto.Key.Open directly: independent of the repository code under test
			p, err := r.repo.Key().Open(nil, stored[:16], stored[16:], nil)
			if err != nil {
				h.Rec("plain", "err")
			} else {
				plain = p
				h.Rec("plain", "ok", Hex(p))
			}
		}
		if len(plain) > 0 {
			z, err := dec.DecodeAll(plain[1:], nil)
			if err != nil {
				h.Rec("zdec", Hex(plain[1:]), "err")
			} else {
				h.Rec("zdec", Hex(plain[1:]), "ok", Hex(z))
			}
		}
		var got []byte
		var lerr error
		if pn, _ := Protect(func() { got, lerr = r.repo.LoadUnpacked(ctx, t, id) }); pn {
			h.Rec("load", "panic")
		} else if lerr != nil {
			h.Rec("load", "err", c07ErrClass(lerr))
		} else {
			h.Rec("load", "ok", Hex(got))
		}
	}
	cfgRec := func(r *c07Repo, t restic.FileType) {
		h.Rec("cfg", U64(uint64(repository.VerifC07Version(r.repo))), Itoa(int(t)), modeName[r.mode], B(r.nev))
	}
	jsonish := []string{`{}`, `[]`, `{"version":2,"id":"abc","chunker_polynomial":"3da3358b4dc173"}`,
		`[1,2,3]`, `{"packs":[{"id":"00","blobs":[]}]}`, `{"time":"2020-01-01T00:00:00Z","exclusive":true}`, `[`, `{`}
	genPayload := func() ([]byte, string) {
		switch k := h.Intn(12); k {
		case 0:
			return nil, "empty"
		case 1, 2:
			s := h.Pick(jsonish)
			if h.Bool() {
				s += strings.Repeat(" ", h.Intn(40))
			}
			return []byte(s), "json"
		case 3, 4:
			return h.Bytes(1 + h.Intn(300)), "binary"
		case 5, 6, 7, 8:
			first := []byte{0x02, '[', '{', 0x00, 0xff, 0x01, 0x03, 0x28, 0xb5}[h.Intn(9)]
			return append([]byte{first}, h.Bytes(h.Intn(200))...), "firstbyte"
		case 9:
			// highly compressible, larger
			return []byte(strings.Repeat(h.Pick(jsonish), 1+h.Intn(400))), "repeat"
		case 10:
			// payload that is itself a valid stored form: version byte + zstd frame
			inner := h.Bytes(h.Intn(50))
			return append([]byte{2}, enc.EncodeAll(inner, nil)...), "looks-compressed"
		default:
			return h.Bytes(h.Intn(5000)), "binary-large"
		}
	}

	n := h.N(400, 30000)
	for i := 0; i < n; i++ {
		r := repos[h.Intn(len(repos))]
		t := types[h.Intn(len(types))]
		payload, _ := genPayload()
		h.Case("rt")
		cfgRec(r, t)
		h.Rec("payload", Hex(payload))
		if t == restic.ConfigFile {
			_ = r.be.Remove(ctx, handle(t, restic.ID{}))
		}
		var id restic.ID
		var serr error
		viaAPI := t == restic.SnapshotFile && h.Bool()
		pn, _ := Protect(func() {
			if viaAPI {
				id, serr = r.repo.SaveUnpacked(ctx, restic.WriteableSnapshotFile, payload)
			} else {
				id, serr = repository.VerifC07Save(r.repo, t, payload)
			}
		})
		switch {
		case pn:
			h.Rec("save", "panic")
			h.End()
			continue
		case serr != nil:
			h.Rec("save", "err", c07ErrClass(serr))
			h.End()
			continue
		}
		h.Rec("save", "ok", B(viaAPI))
		stored := loadRaw(r, t, id)
		emitCommon(r, t, id, stored)
		h.End()
		if t != restic.ConfigFile {
			_ = r.be.Remove(ctx, handle(t, id))
		}
	}

	// hand-built stored files
	nb := h.N(600, 30000)
	for i := 0; i < nb; i++ {
		r := repos[h.Intn(len(repos))]
		t := types[h.Intn(len(types))]
		first := byte(i % 256) // every first byte value is covered in every run
		if i >= 256 && h.Intn(3) > 0 {
			first = []byte{2, 2, 2, '[', '{', 0, 0xff, 1, 3}[h.Intn(9)]
		}
		var plain []byte
		kind := ""
		switch k := h.Intn(12); {
		case k == 10:
			plain, kind = append([]byte{2}, h.Bytes(1+h.Intn(40))...), "ver-garbage"
		case k == 11:
			z := enc.EncodeAll(h.Bytes(20+h.Intn(100)), nil)
			plain, kind = append([]byte{2}, z[:h.Intn(len(z))]...), "ver-truncated-zstd"
		case k == 0:
			plain, kind = nil, "empty-plain"
		case k <= 3:
			plain, kind = append([]byte{first}, enc.EncodeAll(h.Bytes(h.Intn(100)), nil)...), "byte-zstd"
		case k <= 5:
			plain, kind = append([]byte{first}, h.Bytes(h.Intn(60))...), "byte-garbage"
		case k == 6:
			plain, kind = []byte{first}, "byte-only"
		case k == 7:
			plain, kind = append([]byte{2}, enc.EncodeAll([]byte(h.Pick(jsonish)), nil)...), "v2-valid"
		default:
			plain, kind = []byte(h.Pick(jsonish)), "legacy-json"
		}
		nonce := h.Bytes(16)
		stored := append(append([]byte{}, nonce...), r.repo.Key().Seal(nil, nonce, plain, nil)...)
		switch h.Intn(12) {
		case 0:
			stored = stored[:h.Intn(len(stored)+1)]
			kind += "+trunc"
		case 1:
			p := h.Intn(len(stored))
			stored[p] ^= byte(1 << uint(h.Intn(8)))
			kind += "+flip"
		case 2:
			stored = append(stored, h.Bytes(1+h.Intn(4))...)
			kind += "+ext"
		}
		id := restic.Hash(stored)
		hd := handle(t, id)
		if t == restic.ConfigFile {
			_ = r.be.Remove(ctx, hd)
		}
		if err := r.be.Save(ctx, hd, backend.NewByteReader(stored, r.be.Hasher())); err != nil {
			continue // duplicate content
		}
		h.Case("bad")
		cfgRec(r, t)
		h.Rec("kind", kind)
		emitCommon(r, t, id, stored)
		h.End()
		if t != restic.ConfigFile {
			_ = r.be.Remove(ctx, hd)
		}
	}
}
