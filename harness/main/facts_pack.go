//go:build verif

package main

import "github.com/restic/restic/internal/repository/pack"

var _ = verifRegisterFacts(pack.VerifFacts)
