//go:build verif

package main

// C40 — incremental backups store the same tree as full backups. A source tree on the real file
// system goes through a generated sequence of edits; after every edit step the real `backup`
// command runs twice on the unchanged source: with a parent (default parent selection, drawn
// --ignore-ctime / --ignore-inode) and with --force. Root tree ids and all nodes are recorded.
// Some steps use --skip-if-unchanged; sub-stream `stale` violates the proviso on purpose (content
// changed, size and mtime kept, ctime ignored).
// Records per case (= one step):
//   step <k> <ignoreCtime> <ignoreInode> <skipRequested> <edits,comma-separated>
//   parent|incr|full <depth> <hexname> <kind file|dir|other> <md> <size> <mtime_ns> <ctime_ns> <inode> <content ids,…|->
//   cur <depth> <hexname> <kind> <md> <size> <mtime_ns> <ctime_ns> <inode> -
//   trees <incr tree id|-> <full tree id> <parent tree id|-> <incr snapshot created 0/1> <parent used by incr: snapshot id|->
import (
	"context"
	"fmt"
	"os"
	"path/filepath"
	"sort"
	"strings"
	"time"

	"github.com/restic/restic/internal/backend/mem"
	"github.com/restic/restic/internal/data"
	"github.com/restic/restic/internal/repository"
	"github.com/restic/restic/internal/restic"
	"golang.org/x/sys/unix"
)

var _ = verifRegister("C40", streamC40)

func c40NodeKind(t data.NodeType) string {
	switch t {
	case data.NodeTypeFile:
		return "file"
	case data.NodeTypeDir:
		return "dir"
	}
	return "other"
}

// c40DumpTree emits the nodes below the node `src` of the snapshot tree (depth 0 = src itself).
func (h *H) c40DumpTree(key string, repo *repository.Repository, tree restic.ID, srcPath string) {
	// descend to the node for srcPath
	comps := strings.Split(strings.Trim(srcPath, "/"), "/")
	id := tree
	var top *data.Node
	for i, c := range comps {
		it, err := data.LoadTree(context.Background(), repo, id)
		if err != nil {
			panic(err)
		}
		var found *data.Node
		for item := range it {
			if item.Error != nil {
				panic(item.Error)
			}
			if item.Node.Name == c {
				found = item.Node
			}
		}
		if found == nil || (found.Subtree == nil && i < len(comps)-1) {
			h.Rec(key+"-missing", HexS(srcPath))
			return
		}
		top = found
		if found.Subtree != nil {
			id = *found.Subtree
		}
	}
	h.c40DumpNode(key, repo, top, 0)
}

func (h *H) c40DumpNode(key string, repo *repository.Repository, n *data.Node, depth int) {
	ids := "-"
	if len(n.Content) > 0 {
		var l []string
		for _, c := range n.Content {
			l = append(l, c.String()[:16])
		}
		ids = strings.Join(l, ",")
	}
	md := fmt.Sprintf("%d", uint64(n.Mode)&0xfff*4000000007+uint64(n.ModTime.UnixNano())%4000000007)
	h.Rec(key, Itoa(depth), HexS(n.Name), c40NodeKind(n.Type), md, U64(n.Size), I64(n.ModTime.UnixNano()), I64(n.ChangeTime.UnixNano()), U64(n.Inode), ids)
	if n.Type == data.NodeTypeDir && n.Subtree != nil {
		it, err := data.LoadTree(context.Background(), repo, *n.Subtree)
		if err != nil {
			panic(err)
		}
		for item := range it {
			if item.Error != nil {
				panic(item.Error)
			}
			h.c40DumpNode(key, repo, item.Node, depth+1)
		}
	}
}

func (h *H) c40Walk(path, name string, depth int) {
	var st unix.Stat_t
	if err := unix.Lstat(path, &st); err != nil {
		panic(err)
	}
	kind := "other"
	size := int64(0)
	switch st.Mode & unix.S_IFMT {
	case unix.S_IFREG:
		kind, size = "file", st.Size
	case unix.S_IFDIR:
		kind = "dir"
	}
	mt := st.Mtim.Sec*1e9 + st.Mtim.Nsec
	ct := st.Ctim.Sec*1e9 + st.Ctim.Nsec
	md := fmt.Sprintf("%d", uint64(st.Mode)&0xfff*4000000007+uint64(mt)%4000000007)
	h.Rec("cur", Itoa(depth), HexS(name), kind, md, I64(size), I64(mt), I64(ct), U64(st.Ino), "-")
	if kind == "dir" {
		ents, err := os.ReadDir(path)
		if err != nil {
			panic(err)
		}
		var names []string
		for _, e := range ents {
			names = append(names, e.Name())
		}
		sort.Strings(names)
		for _, n := range names {
			h.c40Walk(filepath.Join(path, n), n, depth+1)
		}
	}
}

type c40State struct {
	h     *H
	src   string
	files []string // relative paths of regular files
	dirs  []string // relative paths of directories ("" = src)
	n     int
}

func (s *c40State) rescan() {
	s.files, s.dirs = nil, []string{""}
	_ = filepath.Walk(s.src, func(p string, fi os.FileInfo, err error) error {
		if err != nil || p == s.src {
			return nil
		}
		rel, _ := filepath.Rel(s.src, p)
		if fi.Mode().IsRegular() {
			s.files = append(s.files, rel)
		} else if fi.IsDir() {
			s.dirs = append(s.dirs, rel)
		}
		return nil
	})
	sort.Strings(s.files)
	sort.Strings(s.dirs)
}

func (s *c40State) newName() string {
	s.n++
	return fmt.Sprintf("%c%d", "fghk"[s.h.Intn(4)], s.n)
}

// edit applies one random edit and returns its label.
func (s *c40State) edit(stale bool) string {
	h := s.h
	s.rescan()
	pickFile := func() string { return s.files[h.Intn(len(s.files))] }
	if stale {
		if len(s.files) == 0 {
			return "none"
		}
		f := filepath.Join(s.src, pickFile())
		var st unix.Stat_t
		_ = unix.Lstat(f, &st)
		b, _ := os.ReadFile(f)
		if len(b) == 0 {
			return "none"
		}
		b[h.Intn(len(b))] ^= 0x5a
		fd, err := os.OpenFile(f, os.O_WRONLY, 0)
		if err != nil {
			panic(err)
		}
		_, _ = fd.Write(b)
		fd.Close()
		ts := []unix.Timespec{st.Atim, st.Mtim}
		_ = unix.UtimesNanoAt(unix.AT_FDCWD, f, ts, 0)
		return "stale-content-same-size-mtime-restored"
	}
	k := h.Intn(18)
	if k >= 15 {
		k = 14
	}
	if len(s.files) == 0 && (k < 9 || k >= 13) {
		k = 9
	}
	switch k {
	case 14: // replaced by a different file of the same size with the old mtime: only inode and ctime tell
		f := filepath.Join(s.src, pickFile())
		var st unix.Stat_t
		_ = unix.Lstat(f, &st)
		b, _ := os.ReadFile(f)
		if len(b) == 0 {
			return "none"
		}
		b[h.Intn(len(b))] ^= 0x77
		tmp := f + ".new"
		_ = os.WriteFile(tmp, b, os.FileMode(st.Mode&0777))
		_ = unix.UtimesNanoAt(unix.AT_FDCWD, tmp, []unix.Timespec{st.Atim, st.Mtim}, 0)
		_ = os.Rename(tmp, f)
		return "replaced-new-inode-same-size-mtime"
	case 13: // size changes, mtime put back: only the size comparison (and ctime) can notice
		f := filepath.Join(s.src, pickFile())
		var st unix.Stat_t
		_ = unix.Lstat(f, &st)
		fd, _ := os.OpenFile(f, os.O_WRONLY|os.O_APPEND, 0)
		_, _ = fd.Write(h.Bytes(1 + h.Intn(50)))
		fd.Close()
		_ = unix.UtimesNanoAt(unix.AT_FDCWD, f, []unix.Timespec{st.Atim, st.Mtim}, 0)
		return "append-mtime-restored"
	case 0: // append: size and mtime change
		f := filepath.Join(s.src, pickFile())
		fd, _ := os.OpenFile(f, os.O_WRONLY|os.O_APPEND, 0)
		_, _ = fd.Write(h.Bytes(1 + h.Intn(300)))
		fd.Close()
		return "append"
	case 1: // overwrite in place, same size: mtime (and ctime) change
		f := filepath.Join(s.src, pickFile())
		b, _ := os.ReadFile(f)
		if len(b) == 0 {
			return "none"
		}
		b[h.Intn(len(b))] ^= 0x33
		_ = os.WriteFile(f, b, 0644)
		return "overwrite-same-size"
	case 2: // touch: mtime only
		f := filepath.Join(s.src, pickFile())
		t := time.Unix(1600000000+int64(h.Intn(100000000)), int64(h.Intn(1000000000)))
		_ = os.Chtimes(f, t, t)
		return "touch"
	case 3: // chmod: ctime only
		f := filepath.Join(s.src, pickFile())
		_ = os.Chmod(f, os.FileMode(0600+h.Intn(0200)))
		return "chmod"
	case 4: // rename
		rel := pickFile()
		_ = os.Rename(filepath.Join(s.src, rel), filepath.Join(s.src, filepath.Dir(rel), s.newName()))
		return "rename"
	case 5: // delete
		_ = os.Remove(filepath.Join(s.src, pickFile()))
		return "delete"
	case 6: // atomic rewrite: same content, size, mtime — new inode
		f := filepath.Join(s.src, pickFile())
		var st unix.Stat_t
		_ = unix.Lstat(f, &st)
		b, _ := os.ReadFile(f)
		tmp := f + ".tmp"
		_ = os.WriteFile(tmp, b, os.FileMode(st.Mode&0777))
		_ = unix.UtimesNanoAt(unix.AT_FDCWD, tmp, []unix.Timespec{st.Atim, st.Mtim}, 0)
		_ = os.Rename(tmp, f)
		return "rewrite-new-inode"
	case 7: // file -> directory with a file in it
		f := filepath.Join(s.src, pickFile())
		_ = os.Remove(f)
		_ = os.Mkdir(f, 0755)
		_ = os.WriteFile(filepath.Join(f, s.newName()), h.Bytes(1+h.Intn(500)), 0644)
		return "file-to-dir"
	case 8: // file -> symlink
		f := filepath.Join(s.src, pickFile())
		_ = os.Remove(f)
		_ = os.Symlink("elsewhere", f)
		return "file-to-symlink"
	case 9, 10: // new file
		d := s.dirs[h.Intn(len(s.dirs))]
		_ = os.WriteFile(filepath.Join(s.src, d, s.newName()), h.Bytes(h.Intn(3000)), 0644)
		return "add-file"
	case 11: // new directory with files
		d := filepath.Join(s.src, s.dirs[h.Intn(len(s.dirs))], s.newName())
		_ = os.Mkdir(d, 0755)
		_ = os.WriteFile(filepath.Join(d, s.newName()), h.Bytes(1+h.Intn(500)), 0644)
		return "add-dir"
	default: // directory -> file (only for non-root directories)
		if len(s.dirs) < 2 {
			return "none"
		}
		d := filepath.Join(s.src, s.dirs[1+h.Intn(len(s.dirs)-1)])
		_ = os.RemoveAll(d)
		_ = os.WriteFile(d, h.Bytes(1+h.Intn(500)), 0644)
		return "dir-to-file"
	}
}

type c40Snap struct {
	id restic.ID
	sn *data.Snapshot
}

func c40Snapshots(repo *repository.Repository) []c40Snap {
	var l []c40Snap
	_ = data.ForAllSnapshots(context.Background(), repo, repo, nil, func(id restic.ID, sn *data.Snapshot, err error) error {
		if err == nil {
			l = append(l, c40Snap{id, sn})
		}
		return nil
	})
	sort.Slice(l, func(i, j int) bool { return l[i].sn.Time.Before(l[j].sn.Time) })
	return l
}

func streamC40(h *H) {
	n := h.N(10, 400)
	for i := 0; i < n; i++ {
		h.c40Sequence()
	}
}

func (h *H) c40Sequence() {
	work := MkTemp("c40-")
	defer os.RemoveAll(work)
	src := filepath.Join(work, "src")
	_ = os.Mkdir(src, 0755)
	st := &c40State{h: h, src: src}
	for i := 0; i < 3+h.Intn(6); i++ {
		st.rescan()
		switch h.Intn(5) {
		case 0:
			d := filepath.Join(src, st.dirs[h.Intn(len(st.dirs))], st.newName())
			_ = os.Mkdir(d, 0755)
		case 1:
			_ = os.Symlink("t", filepath.Join(src, st.dirs[h.Intn(len(st.dirs))], st.newName()))
		default:
			_ = os.WriteFile(filepath.Join(src, st.dirs[h.Intn(len(st.dirs))], st.newName()), h.Bytes(h.Intn(2000)), 0644)
		}
	}
	be := mem.New()
	cli := NewCLI(be)
	cli.MustRun("init")
	// relative target from the work directory: the root tree of every snapshot holds the node `src`
	// only (no parent directories of the scratch area, whose mtimes change under our feet)
	cwd, _ := os.Getwd()
	if err := os.Chdir(work); err != nil {
		panic(err)
	}
	defer os.Chdir(cwd)
	run := func(args ...string) CmdResult {
		ctx, cancel := context.WithTimeout(context.Background(), 120*time.Second)
		defer cancel()
		return cli.RunCtx(ctx, args...)
	}
	if r := run("backup", "src"); r.Err != nil {
		panic(fmt.Sprintf("initial backup: %v %s", r.Err, r.Stderr))
	}
	steps := 3 + h.Intn(3)
	for k := 1; k <= steps; k++ {
		time.Sleep(12 * time.Millisecond) // let the (coarse) kernel clock advance: ctime of edits differs
		stale := h.Intn(6) == 0
		var edits []string
		nedits := h.Intn(4)
		if stale {
			nedits = 1
		}
		for e := 0; e < nedits; e++ {
			edits = append(edits, st.edit(stale))
		}
		if len(edits) == 0 {
			edits = []string{"no-edit"}
		}
		ignoreCtime, ignoreInode := h.Intn(3) == 0, h.Intn(3) == 0
		for _, e := range edits {
			if e == "replaced-new-inode-same-size-mtime" && h.Intn(3) != 0 {
				ignoreCtime, ignoreInode = true, false // only the inode comparison can notice the replacement
			}
		}
		if stale {
			ignoreCtime = h.Intn(4) != 0
		}
		skip := h.Intn(3) == 0
		sub := "steps"
		if stale {
			sub = "stale"
		}
		h.Case(sub)
		h.Rec("step", Itoa(k), B(ignoreCtime), B(ignoreInode), B(skip), strings.Join(edits, ","))
		h.c40Walk(src, "src", 0)
		before := c40Snapshots(cli.OpenRepo())
		args := []string{"backup"}
		if ignoreCtime {
			args = append(args, "--ignore-ctime")
		}
		if ignoreInode {
			args = append(args, "--ignore-inode")
		}
		incrArgs := append([]string{}, args...)
		if skip {
			incrArgs = append(incrArgs, "--skip-if-unchanged")
		}
		ri := run(append(incrArgs, "src")...)
		if ri.Err != nil {
			h.Rec("error", "incr", Itoa(ri.Exit), HexS(c01Tail(ri.Stderr)))
			h.End()
			return
		}
		repo := cli.OpenRepo()
		if err := repo.LoadIndex(context.Background(), restic.NoopTerminalCounterFactory); err != nil {
			panic(err)
		}
		after := c40Snapshots(repo)
		created := len(after) > len(before)
		incrTree, parentTree, parentID := "-", "-", "-"
		var parent *c40Snap
		if created {
			s := after[len(after)-1]
			incrTree = s.sn.Tree.String()
			h.c40DumpTree("incr", repo, *s.sn.Tree, "src")
			if s.sn.Parent != nil {
				for i := range after {
					if after[i].id == *s.sn.Parent {
						parent = &after[i]
					}
				}
			}
		} else if len(before) > 0 {
			parent = &before[len(before)-1] // skipped: the parent is the latest snapshot
		}
		if parent != nil {
			parentTree, parentID = parent.sn.Tree.String(), parent.id.String()
			h.c40DumpTree("parent", repo, *parent.sn.Tree, "src")
		}
		rf := run(append(append([]string{}, args...), "--force", "src")...)
		if rf.Err != nil {
			h.Rec("error", "full", Itoa(rf.Exit), HexS(c01Tail(rf.Stderr)))
			h.End()
			return
		}
		repo = cli.OpenRepo()
		if err := repo.LoadIndex(context.Background(), restic.NoopTerminalCounterFactory); err != nil {
			panic(err)
		}
		after2 := c40Snapshots(repo)
		full := after2[len(after2)-1]
		h.c40DumpTree("full", repo, *full.sn.Tree, "src")
		fullParent := "-"
		if full.sn.Parent != nil {
			fullParent = full.sn.Parent.String()
		}
		h.Rec("trees", incrTree, full.sn.Tree.String(), parentTree, B(created), parentID, fullParent)
		h.End()
	}
}
