//go:build verif

package main

// Helpers shared by the C32 / C33 / C34 streams (builder A16): building small real repositories by
// `backup` of generated trees, inspecting pack headers and index files, damaging backend states,
// a CLI bound to two in-memory backends ("mem:" = primary, "mem2:" = secondary / --from-repo).

import (
	"bytes"
	"context"
	"fmt"
	"io"
	"os"
	"path/filepath"
	"sort"
	"strings"

	"github.com/klauspost/compress/zstd"
	"github.com/restic/restic/internal/backend"
	"github.com/restic/restic/internal/backend/location"
	"github.com/restic/restic/internal/backend/mem"
	"github.com/restic/restic/internal/data"
	"github.com/restic/restic/internal/global"
	"github.com/restic/restic/internal/repository"
	"github.com/restic/restic/internal/repository/index"
	"github.com/restic/restic/internal/repository/pack"
	"github.com/restic/restic/internal/restic"
	"github.com/restic/restic/internal/ui/termstatus"
)

// a16Entry is one (pack header | index) entry.
type a16Entry struct {
	Typ  int // 0 data, 1 tree
	ID   restic.ID
	Off  uint
	Len  uint
	ULen uint
}

func a16Short(id restic.ID) string { return id.String()[:16] }

func (e a16Entry) toks() []string {
	return []string{Itoa(e.Typ), a16Short(e.ID), Itoa(int(e.Off)), Itoa(int(e.Len)), Itoa(int(e.ULen))}
}

func a16FromBlob(b pack.Blob) a16Entry {
	t := 0
	if b.Type == restic.TreeBlob {
		t = 1
	}
	return a16Entry{Typ: t, ID: b.ID, Off: b.Offset, Len: b.Length, ULen: b.UncompressedLength}
}

func (e a16Entry) blob() pack.Blob {
	t := restic.DataBlob
	if e.Typ == 1 {
		t = restic.TreeBlob
	}
	return pack.Blob{BlobHandle: restic.BlobHandle{ID: e.ID, Type: t}, Offset: e.Off, Length: e.Len, UncompressedLength: e.ULen}
}

func a16SortEntries(l []a16Entry) {
	sort.Slice(l, func(i, j int) bool {
		if l[i].Off != l[j].Off {
			return l[i].Off < l[j].Off
		}
		return l[i].ID.String() < l[j].ID.String()
	})
}

// a16PackInfo describes one pack file as stored.
type a16PackInfo struct {
	ID      restic.ID
	Size    int64
	HdrOK   bool
	Entries []a16Entry // header entries (pack.List at the stored size), offset order
}

// a16Packs lists all pack files of the backend with the result of the real header parser.
func a16Packs(repo *repository.Repository, be backend.Backend) []a16PackInfo {
	var res []a16PackInfo
	ctx := context.Background()
	_ = be.List(ctx, backend.PackFile, func(fi backend.FileInfo) error {
		id, err := restic.ParseID(fi.Name)
		if err != nil {
			return nil
		}
		pi := a16PackInfo{ID: id, Size: fi.Size}
		h := backend.Handle{Type: backend.PackFile, Name: fi.Name}
		blobs, _, err := pack.List(repo.Key(), backend.ReaderAt(ctx, be, h), fi.Size)
		if err == nil {
			pi.HdrOK = true
			for _, b := range blobs {
				pi.Entries = append(pi.Entries, a16FromBlob(b))
			}
		}
		res = append(res, pi)
		return nil
	})
	sort.Slice(res, func(i, j int) bool { return a16Before(res[i].ID.String(), res[j].ID.String()) })
	return res
}

// a16Seq gives files the harness itself created (through backup etc.) a canonical creation
// sequence number. Storage IDs are hashes of ciphertexts with random nonces, i.e. different in
// every run; ordering lists by ID would make every "pick the n-th pack" choice depend on them.
// Lists are therefore ordered by creation sequence (files not registered: afterwards, by ID).
var a16Seq = map[string]int{}

func a16Before(a, b string) bool {
	sa, oka := a16Seq[a]
	sb, okb := a16Seq[b]
	switch {
	case oka && okb:
		return sa < sb
	case oka != okb:
		return oka
	default:
		return a < b
	}
}

// a16Note registers every not yet registered pack and index file of the backend; files that
// appeared together are ordered by content shape (data packs before tree packs, fewer blobs first).
func a16Note(repo *repository.Repository, be backend.Backend) {
	var np []a16PackInfo
	for _, p := range a16Packs(repo, be) {
		if _, ok := a16Seq[p.ID.String()]; !ok {
			np = append(np, p)
		}
	}
	kind := func(p a16PackInfo) int {
		if len(p.Entries) > 0 {
			return p.Entries[0].Typ
		}
		return 2
	}
	sort.SliceStable(np, func(i, j int) bool {
		if kind(np[i]) != kind(np[j]) {
			return kind(np[i]) < kind(np[j])
		}
		if len(np[i].Entries) != len(np[j].Entries) {
			return len(np[i].Entries) < len(np[j].Entries)
		}
		return np[i].Size < np[j].Size
	})
	for _, p := range np {
		a16Seq[p.ID.String()] = len(a16Seq)
	}
	var ni []a16IdxInfo
	for _, ix := range a16Indexes(repo, be) {
		if _, ok := a16Seq[ix.ID.String()]; !ok {
			ni = append(ni, ix)
		}
	}
	minSeq := func(ix a16IdxInfo) int {
		m := 1 << 30
		for _, p := range ix.Packs {
			if q, ok := a16Seq[p.Pack.String()]; ok && q < m {
				m = q
			}
		}
		return m
	}
	sort.SliceStable(ni, func(i, j int) bool {
		if minSeq(ni[i]) != minSeq(ni[j]) {
			return minSeq(ni[i]) < minSeq(ni[j])
		}
		return ni[i].NBlobs < ni[j].NBlobs
	})
	for _, ix := range ni {
		a16Seq[ix.ID.String()] = len(a16Seq)
	}
}

// a16IdxInfo describes one index file as stored.
type a16IdxInfo struct {
	ID     restic.ID
	OK     bool // loads and decodes
	NBlobs int
	Packs  []a16IdxPack
}
type a16IdxPack struct {
	Pack    restic.ID
	Entries []a16Entry
}

func a16Indexes(repo *repository.Repository, be backend.Backend) []a16IdxInfo {
	var res []a16IdxInfo
	ctx := context.Background()
	_ = be.List(ctx, backend.IndexFile, func(fi backend.FileInfo) error {
		id, err := restic.ParseID(fi.Name)
		if err != nil {
			return nil
		}
		ii := a16IdxInfo{ID: id}
		buf, err := repo.LoadUnpacked(ctx, restic.IndexFile, id)
		if err == nil {
			var idx *index.Index
			idx, err = index.DecodeIndex(buf, id)
			if err == nil {
				ii.OK = true
				for pbs := range idx.EachByPack(ctx, restic.NewIDSet()) {
					ip := a16IdxPack{Pack: pbs.PackID}
					for _, b := range pbs.Blobs {
						ip.Entries = append(ip.Entries, a16FromBlob(b))
					}
					a16SortEntries(ip.Entries)
					ii.NBlobs += len(ip.Entries)
					ii.Packs = append(ii.Packs, ip)
				}
				sort.Slice(ii.Packs, func(i, j int) bool { return a16Before(ii.Packs[i].Pack.String(), ii.Packs[j].Pack.String()) })
			}
		}
		res = append(res, ii)
		return nil
	})
	sort.Slice(res, func(i, j int) bool { return a16Before(res[i].ID.String(), res[j].ID.String()) })
	return res
}

// a16SaveIndex writes a new index file with the given content through the real encoder.
func a16SaveIndex(repo *repository.Repository, packs []a16IdxPack) restic.ID {
	idx := index.NewIndex()
	for _, p := range packs {
		var bl pack.Blobs
		for _, e := range p.Entries {
			bl = append(bl, e.blob())
		}
		idx.StorePack(p.Pack, bl)
	}
	idx.Finalize()
	id, err := idx.SaveIndex(context.Background(), a16Saver{repo})
	if err != nil {
		panic(err)
	}
	return id
}

type a16Saver struct{ r *repository.Repository }

func (s a16Saver) Connections() uint { return 2 }
func (s a16Saver) SaveUnpacked(ctx context.Context, t restic.FileType, buf []byte) (restic.ID, error) {
	return repository.VerifC33SaveUnpacked(ctx, s.r, t, buf)
}

func a16Raw(be backend.Backend, t backend.FileType, name string) []byte {
	var buf []byte
	err := be.Load(context.Background(), backend.Handle{Type: t, Name: name}, 0, 0, func(rd io.Reader) error {
		var e error
		buf, e = io.ReadAll(rd)
		return e
	})
	if err != nil {
		panic(err)
	}
	return buf
}

// a16Replace overwrites (remove + save) a file of the mem backend with new bytes.
func a16Replace(be backend.Backend, t backend.FileType, name string, buf []byte) {
	ctx := context.Background()
	h := backend.Handle{Type: t, Name: name}
	_ = be.Remove(ctx, h)
	if err := be.Save(ctx, h, backend.NewByteReader(buf, be.Hasher())); err != nil {
		panic(err)
	}
}

func a16Remove(be backend.Backend, t backend.FileType, name string) {
	_ = be.Remove(context.Background(), backend.Handle{Type: t, Name: name})
}

func a16RemoveLocks(be backend.Backend) {
	var names []string
	_ = be.List(context.Background(), backend.LockFile, func(fi backend.FileInfo) error { names = append(names, fi.Name); return nil })
	for _, n := range names {
		a16Remove(be, backend.LockFile, n)
	}
}

var a16Dec *zstd.Decoder

// a16BlobReadable decides — independently of streamPack / RepairPacks — whether the bytes of pack
// file content `raw` at the entry's position decrypt (MAC ok), decompress and hash to the entry's
// ID, i.e. whether this blob "can still be read" from the pack.
func a16BlobReadable(repo *repository.Repository, raw []byte, e a16Entry) bool {
	if uint64(e.Off)+uint64(e.Len) > uint64(len(raw)) {
		return false
	}
	k := repo.Key()
	buf := raw[e.Off : e.Off+e.Len]
	if len(buf) < k.NonceSize()+k.Overhead()-k.NonceSize() {
		return false
	}
	if len(buf) < k.NonceSize() {
		return false
	}
	nonce, ct := buf[:k.NonceSize()], buf[k.NonceSize():]
	pt, err := k.Open(nil, nonce, ct, nil)
	if err != nil {
		return false
	}
	if e.ULen != 0 {
		if a16Dec == nil {
			d, err := zstd.NewReader(nil)
			if err != nil {
				panic(err)
			}
			a16Dec = d
		}
		pt, err = a16Dec.DecodeAll(pt, nil)
		if err != nil {
			return false
		}
		if uint(len(pt)) != e.ULen {
			return false
		}
	}
	return restic.Hash(pt) == e.ID
}

// --- source trees ---------------------------------------------------------------------------

// a16Tree is a generated source directory that is evolved between backups.
type a16Tree struct {
	Dir   string
	h     *H
	files []string
	n     int
}

func a16NewTree(h *H) *a16Tree {
	return &a16Tree{Dir: MkTemp("a16src-"), h: h}
}

func (t *a16Tree) Close() { os.RemoveAll(t.Dir) }

// Mutate adds nAdd new small files (random content => fresh blobs), rewrites and removes a few.
func (t *a16Tree) Mutate(nAdd int) {
	h := t.h
	for i := 0; i < nAdd; i++ {
		t.n++
		sub := ""
		switch h.Intn(4) {
		case 0:
			sub = "d1"
		case 1:
			sub = "d1/d2"
		case 2:
			sub = "e"
		}
		p := filepath.Join(t.Dir, sub, fmt.Sprintf("f%03d", t.n))
		_ = os.MkdirAll(filepath.Dir(p), 0o755)
		size := 50 + h.Intn(3000)
		if h.Intn(12) == 0 {
			size = 0
		}
		if err := os.WriteFile(p, h.Bytes(size), 0o644); err != nil {
			panic(err)
		}
		t.files = append(t.files, p)
	}
	if len(t.files) > 3 && h.Intn(2) == 0 {
		i := h.Intn(len(t.files))
		_ = os.WriteFile(t.files[i], h.Bytes(100+h.Intn(2000)), 0o644)
	}
	if len(t.files) > 4 && h.Intn(3) == 0 {
		i := h.Intn(len(t.files))
		_ = os.Remove(t.files[i])
		t.files = append(t.files[:i], t.files[i+1:]...)
	}
}

// --- snapshots / trees -----------------------------------------------------------------------

func a16Snapshots(repo *repository.Repository) []*data.Snapshot {
	var res []*data.Snapshot
	err := data.ForAllSnapshots(context.Background(), repo, repo, nil, func(id restic.ID, sn *data.Snapshot, err error) error {
		if err != nil {
			return nil
		}
		res = append(res, sn)
		return nil
	})
	if err != nil {
		panic(err)
	}
	// creation (time) order: snapshot IDs differ from run to run
	sort.Slice(res, func(i, j int) bool {
		if !res[i].Time.Equal(res[j].Time) {
			return res[i].Time.Before(res[j].Time)
		}
		return res[i].ID().String() < res[j].ID().String()
	})
	return res
}

// --- CLI on two backends ---------------------------------------------------------------------

func a16MemFactory(scheme string, be backend.Backend) location.Factory {
	f := memFactory(be)
	if scheme == "mem" {
		return f
	}
	return a16Scheme{Factory: f, scheme: scheme}
}

type a16Scheme struct {
	location.Factory
	scheme string
}

func (s a16Scheme) Scheme() string { return s.scheme }

// CLI2 runs `restic -r mem:r … ` with a second location "mem2:r" (used with --from-repo).
type CLI2 struct {
	Be, Be2             backend.Backend
	Password, Password2 string
	Extra               []string
}

func (c *CLI2) Run(args ...string) (res CmdResult) {
	cliMu.Lock()
	os.Setenv("RESTIC_PASSWORD", c.Password)
	os.Setenv("RESTIC_FROM_PASSWORD", c.Password2)
	reg := location.NewRegistry()
	reg.Register(a16MemFactory("mem", c.Be))
	reg.Register(a16MemFactory("mem2", c.Be2))
	gopts := global.Options{Backends: reg}
	var stdout, stderr bytes.Buffer
	term, cancelTerm := termstatus.Setup(io.NopCloser(bytes.NewReader(nil)), &stdout, &stderr, false)
	gopts.Term = term
	ctx, cancel := context.WithCancel(context.Background())
	root := newRootCommand(&gopts)
	full := append([]string{"-r", "mem:r", "--no-cache"}, c.Extra...)
	full = append(full, args...)
	root.SetArgs(full)
	root.SetOut(&stdout)
	root.SetErr(&stderr)
	cliMu.Unlock()
	// The harness runs inside init(), i.e. on the main goroutine while it is still locked to its OS
	// thread; `copy` creates an iter.Pull2 coroutine and resumes it from a worker goroutine, which
	// the runtime only allows when creator and resumer have the same thread-lock state (as in a
	// normal restic process, where main.main is not locked). Hence: run the command on a fresh
	// goroutine.
	var panicked bool
	var msg string
	done := make(chan struct{})
	go func() {
		defer close(done)
		panicked, msg = Protect(func() {
			err := root.ExecuteContext(ctx)
			switch err {
			case nil:
				err = ctx.Err()
			case ErrOK:
				err = nil
			}
			res.Err = err
		})
	}()
	<-done
	cancel()
	cancelTerm()
	os.Unsetenv("RESTIC_FROM_PASSWORD")
	res.Stdout, res.Stderr = stdout.String(), stderr.String()
	if panicked {
		res.Panic = msg
		res.Exit = 2
		res.Err = fmt.Errorf("panic: %s", msg)
		return
	}
	res.Exit = exitCodeOf(res.Err)
	return
}

// a16Chdir switches to a fresh scratch directory (repair packs writes pack-<id> files to the
// current directory) and returns a restore function.
func a16Chdir() func() {
	old, _ := os.Getwd()
	d := MkTemp("a16cwd-")
	if err := os.Chdir(d); err != nil {
		panic(err)
	}
	return func() {
		_ = os.Chdir(old)
		_ = os.RemoveAll(d)
	}
}

func a16NewRepo(version string) (*mem.MemoryBackend, *CLI) {
	be := mem.New()
	cli := NewCLI(be)
	args := []string{"init"}
	if version != "" {
		args = append(args, "--repository-version", version)
	}
	cli.MustRun(args...)
	return be, cli
}

func a16ErrKind(r CmdResult) string {
	if r.Panic != "" {
		return "panic"
	}
	if r.Err != nil {
		return "err"
	}
	return "ok"
}

func a16OneLine(s string) string {
	s = strings.ReplaceAll(s, "\n", "|")
	if len(s) > 300 {
		s = s[:300]
	}
	return s
}
