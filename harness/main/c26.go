//go:build verif

package main

// C26 — tag / rewrite / repair snapshots never lose the snapshot at any crash point.
//
// Real CLI commands run in-process on in-memory repositories behind a recording backend. For
// every scenario the command is run once completely and then once per crash point (the backend
// dies after k mutating operations); for each run the stream emits the initial repository, the
// recorded backend trace, the snapshot files really present afterwards, and the result of a real
// `check` on that state. The Lean driver replays the trace through the model, asks the acceptor,
// and evaluates the property on the real listing.

import (
	"bytes"
	"context"
	"fmt"
	"os"
	"path/filepath"
	"regexp"
	"runtime"
	"sort"
	"strings"

	"github.com/restic/restic/internal/backend"
	"github.com/restic/restic/internal/backend/mem"
)

var _ = verifRegister("C26", streamC26)

type c26Base struct {
	st    BeState
	dirs  []string
	snaps []string // snapshot ids (full), in creation order
}

func writeFile(p string, b []byte) {
	if err := os.MkdirAll(filepath.Dir(p), 0o755); err != nil {
		panic(err)
	}
	if err := os.WriteFile(p, b, 0o644); err != nil {
		panic(err)
	}
}

// c26MakeBase: three snapshots of three small directories (unique path lists = lineage keys),
// random initial tags; the first one has already been retagged once (so it carries `original`).
func c26MakeBase(h *H, root string, gen int) *c26Base {
	be := mem.New()
	cli := NewCLI(be)
	cli.MustRun("init")
	b := &c26Base{}
	for i := 0; i < 3; i++ {
		d := filepath.Join(root, fmt.Sprintf("g%d-u%d", gen, i))
		writeFile(filepath.Join(d, "a.txt"), h.Bytes(100+h.Intn(400)))
		writeFile(filepath.Join(d, "b.bin"), h.Bytes(1000+h.Intn(3000)))
		writeFile(filepath.Join(d, "sub", "c.txt"), h.Bytes(50+h.Intn(200)))
		writeFile(filepath.Join(d, "sub", "d.txt"), h.Bytes(50+h.Intn(200)))
		args := []string{"backup", d, "--host", fmt.Sprintf("h%d", i)}
		for _, t := range []string{"x", "y"} {
			if h.Bool() {
				args = append(args, "--tag", t)
			}
		}
		cli.MustRun(args...)
		b.dirs = append(b.dirs, d)
	}
	// give the first snapshot an `original`
	ids := c26SnapshotIDs(be)
	cli.MustRun("tag", "--add", "init", ids[h.Intn(len(ids))])
	a12RemoveLocks(be)
	b.st = DumpBackend(be)
	b.snaps = c26SnapshotIDs(be)
	return b
}

func c26SnapshotIDs(be backend.Backend) []string {
	var l []string
	_ = be.List(context.Background(), backend.SnapshotFile, func(fi backend.FileInfo) error { l = append(l, fi.Name); return nil })
	sort.Strings(l)
	return l
}

var c26EmptyRe = regexp.MustCompile(`(?:removed empty snapshot|would delete empty snapshot)`)

type c26Scenario struct {
	cmd   string   // tag | rewrite | repair
	args  []string // full CLI args
	st    BeState  // state the command starts from
	sel   []string // selected snapshot ids
	selFn func(id string, s a12Snap, needsOK, rootOK bool) []string
	label []string
}

func streamC26(h *H) {
	runtime.GOMAXPROCS(4) // the machine is shared; the streams are not CPU hungry
	root := MkTemp("c26-")
	defer os.RemoveAll(root)
	nScen := h.N(24, 600)
	var base *c26Base
	var dec *a12Dec
	for sc := 0; sc < nScen; sc++ {
		if sc%8 == 0 {
			base = c26MakeBase(h, root, sc)
			dec = newA12Dec(a12Key(LoadBackend(base.st)))
		}
		s := c26Pick(h, base, dec)
		c26RunScenario(h, dec, s)
	}
}

func has(l []string, x string) bool {
	for _, y := range l {
		if y == x {
			return true
		}
	}
	return false
}

func c26Pick(h *H, base *c26Base, dec *a12Dec) *c26Scenario {
	s := &c26Scenario{st: base.st}
	all := h.Intn(3) == 0
	if all {
		s.sel = append([]string(nil), base.snaps...)
	} else {
		s.sel = []string{base.snaps[h.Intn(len(base.snaps))]}
	}
	b01 := func(b bool) string { return B(b) }
	switch h.Intn(10) {
	case 0, 1, 2: // tag
		s.cmd = "tag"
		var op, tag string
		switch h.Intn(4) {
		case 0:
			op, tag = "--add", "n1"
		case 1:
			op, tag = "--add", "x"
		case 2:
			op, tag = "--remove", h.Pick([]string{"x", "y", "zz"})
		default:
			op, tag = "--set", h.Pick([]string{"z", "x"})
		}
		s.args = []string{"tag", op, tag}
		s.label = []string{"tag" + op}
		s.selFn = func(id string, sn a12Snap, _, _ bool) []string {
			changed := false
			switch op {
			case "--add":
				changed = !has(sn.Tags, tag)
			case "--remove":
				changed = has(sn.Tags, tag)
			default:
				changed = true
			}
			return []string{"tag", b01(changed)}
		}
	case 3, 4, 5, 6: // rewrite
		s.cmd = "rewrite"
		forget, dry := h.Bool(), h.Intn(4) == 0
		var filtered string
		meta, keepEmpty := false, false
		switch h.Intn(5) {
		case 0:
			s.args = []string{"rewrite", "--exclude", "b.bin"}
			filtered = "changed"
			s.label = []string{"rw-exclude-hit"}
		case 1:
			s.args = []string{"rewrite", "--exclude", "nosuchfile"}
			filtered = "same"
			s.label = []string{"rw-exclude-miss"}
		case 2:
			s.args = []string{"rewrite", "--include", "sub"}
			filtered, keepEmpty = "changed", true
			s.label = []string{"rw-include-hit"}
		case 3:
			s.args = []string{"rewrite", "--include", "nosuchfile"}
			filtered, keepEmpty = "null", true
			s.label = []string{"rw-include-miss"}
		default:
			s.args = []string{"rewrite", "--new-host", "newhost"}
			filtered, meta = "same", true
			s.label = []string{"rw-new-host"}
		}
		if forget {
			s.args = append(s.args, "--forget")
			s.label = append(s.label, "forget")
		}
		if dry {
			s.args = append(s.args, "--dry-run")
			s.label = append(s.label, "dry-run")
		}
		s.selFn = func(id string, sn a12Snap, _, _ bool) []string {
			return []string{"far", filtered, b01(meta), b01(keepEmpty), b01(dry), b01(forget)}
		}
	default: // repair snapshots after damage
		s.cmd = "repair"
		forget, dry := h.Bool(), h.Intn(4) == 0
		s.args = []string{"repair", "snapshots"}
		if forget {
			s.args = append(s.args, "--forget")
			s.label = append(s.label, "forget")
		}
		if dry {
			s.args = append(s.args, "--dry-run")
			s.label = append(s.label, "dry-run")
		}
		mode := h.Intn(5) // 0: no damage; 1,2: data pack of one snapshot; 3,4: tree pack of one snapshot
		victim := base.snaps[h.Intn(len(base.snaps))]
		st := BeState{}
		for k, v := range base.st {
			st[k] = v
		}
		if mode > 0 {
			wantType := 0
			lbl := "damage-data"
			if mode >= 3 {
				wantType, lbl = 1, "damage-tree"
			}
			s.label = append(s.label, lbl)
			// decode packs, find the packs holding the victim's blobs of that type
			for _, k := range st.Names("data") {
				_, n := splitKey(k)
				dec.Pack(n, st[k])
			}
			vs := dec.Snap(victim, st["snapshot/"+victim])
			need := map[string]bool{}
			for _, hd := range dec.Closure(vs.Tree) {
				if hd[0] == byte('0'+wantType) {
					need[hd[2:]] = true
				}
			}
			for _, k := range st.Names("data") {
				_, n := splitKey(k)
				for _, b := range dec.Pack(n, st[k]) {
					if b.Type == wantType && need[b.ID] {
						delete(st, k)
						break
					}
				}
			}
			be := LoadBackend(st)
			r := NewCLI(be).Run("repair", "index")
			if r.Err != nil {
				panic(fmt.Sprintf("c26: repair index failed: %v\n%s", r.Err, r.Stderr))
			}
			a12RemoveLocks(be)
			st = DumpBackend(be)
		} else {
			s.label = append(s.label, "no-damage")
		}
		s.st = st
		s.selFn = func(id string, sn a12Snap, needsOK, rootOK bool) []string {
			filtered := "same"
			if !rootOK {
				filtered = "null"
			} else if !needsOK {
				filtered = "changed"
			}
			return []string{"far", filtered, "0", "0", b01(dry), b01(forget)}
		}
	}
	if !all {
		s.args = append(s.args, s.sel[0])
	}
	return s
}

// c26Indexed: blob handles ("t.id") that some index file of the state names in an existing pack
// with the same entry — the harness-side ground truth for "is this snapshot damaged".
func c26Indexed(dec *a12Dec, st BeState) map[string]bool {
	res := map[string]bool{}
	packs := map[string]map[a12Blob]bool{}
	for _, k := range st.Names("data") {
		_, n := splitKey(k)
		m := map[a12Blob]bool{}
		for _, b := range dec.Pack(n, st[k]) {
			m[b] = true
		}
		packs[n] = m
	}
	for _, k := range st.Names("index") {
		_, n := splitKey(k)
		for p, bs := range dec.Index(n, st[k]) {
			for _, b := range bs {
				if packs[p][b] {
					res[fmt.Sprintf("%d.%s", b.Type, b.ID)] = true
				}
			}
		}
	}
	return res
}

func c26RunScenario(h *H, dec *a12Dec, s *c26Scenario) {
	// complete run first: number of mutating operations, stdout (which lineages were "emptied")
	// failAt >= 0: every attempt to write (or clean up) the file that the failAt-th mutating
	// operation touches fails; all other operations keep working (a fault, not a crash prefix)
	run := func(crashAfter, failAt int) (*RecBackend, CmdResult, BeState) {
		be := LoadBackend(s.st)
		rec := NewRecBackend(be)
		rec.KeepData = true
		rec.CrashAfter = crashAfter
		if failAt >= 0 {
			var victim *backend.Handle
			rec.FailOp = func(op string, hd backend.Handle, nth int) error {
				if op != "save" && op != "remove" {
					return nil
				}
				if victim == nil && nth == failAt+1 {
					v := hd
					victim = &v
				}
				if victim != nil && hd == *victim {
					return errInjected
				}
				return nil
			}
		}
		res := NewCLI(rec).Run(s.args...)
		return rec, res, DumpBackend(be)
	}
	rec0, res0, _ := run(-1, -1)
	n := rec0.Mutations()
	emptied := []string{}
	for _, line := range strings.Split(res0.Stdout, "\n") {
		if c26EmptyRe.MatchString(line) {
			f := strings.Fields(line)
			short := f[len(f)-1]
			for _, id := range s.sel {
				if strings.HasPrefix(id, short) {
					emptied = append(emptied, id)
				}
			}
		}
	}
	// `would delete empty snapshot` (dry-run) names no id: nothing is removed there anyway
	indexed := c26Indexed(dec, s.st)
	r0chk := NewCLI(LoadBackend(s.st)).Run("check")
	for kk := 0; kk <= 2*n; kk++ {
		// kk <= n: crash after kk mutations (kk == n: complete run); kk > n: fault on operation kk-n-1
		k, mode := kk, "crash"
		var rec *RecBackend
		var res CmdResult
		var after BeState
		switch {
		case kk == n:
			rec, res, after = run(-1, -1)
		case kk < n:
			rec, res, after = run(kk, -1)
		default:
			k, mode = kk-n-1, "fail"
			rec, res, after = run(-1, k)
		}
		in := newA12Intern()
		h.Case(s.cmd)
		h.Rec("cmd", HexS(strings.Join(s.args, " ")))
		h.Rec("crash", Itoa(k), Itoa(n), mode)
		// kind of the last mutation that went through (label for the distribution)
		lastKind := "none"
		cnt := 0
		for _, e := range rec.Events {
			if (e.Op == "save" || e.Op == "remove") && a12Happened(e, after) {
				cnt++
				lastKind = e.Op + "-" + e.Type
			}
		}
		h.Rec("last", lastKind, Itoa(cnt))
		a12EmitState(h, dec, in, s.st, "r0")
		h.Rec("r0check", B(r0chk.Err == nil))
		a12EmitEvents(h, dec, in, "w", rec.Events, after)
		for _, id := range s.sel {
			sn := dec.Snap(id, s.st["snapshot/"+id])
			needsOK, rootOK := true, indexed["1."+sn.Tree]
			for _, hd := range dec.Closure(sn.Tree) {
				if !indexed[hd] {
					needsOK = false
				}
			}
			h.Rec("sel", append([]string{in.N(id)}, s.selFn(id, sn, needsOK, rootOK)...)...)
		}
		et := []string{}
		for _, id := range emptied {
			et = append(et, in.N("key:"+dec.Snap(id, s.st["snapshot/"+id]).Key))
		}
		h.Rec("emptied", et...)
		// what is really there
		for _, key := range after.Names("snapshot") {
			_, name := splitKey(key)
			sn := dec.Snap(name, after[key])
			h.Rec("state", "snap", in.N(name), in.N("key:"+sn.Key))
		}
		// real check on the crash state (stale locks of the dead process removed first)
		cbe := LoadBackend(after)
		a12RemoveLocks(cbe)
		chk := NewCLI(cbe).Run("check")
		h.Rec("state", "check", B(chk.Err == nil), HexS(firstLine(chk.Stderr)))
		h.Rec("res", Itoa(res.Exit), B(kk == n))
		h.Rec("labels", append([]string{s.cmd, "mode:" + mode}, s.label...)...)
		h.End()
	}
}

func firstLine(s string) string {
	s = strings.TrimSpace(s)
	if i := strings.IndexByte(s, '\n'); i >= 0 {
		s = s[:i]
	}
	if len(s) > 200 {
		s = s[:200]
	}
	return s
}

var _ = bytes.Equal
