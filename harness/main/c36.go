//go:build verif

package main

// C36 — the real local.Save in a child process that is killed at a chosen system call
// (strace -e inject=<syscall>:signal=KILL:when=N); afterwards the parent inspects the repository
// directory: listing, content under the final name, what real `restic.ParseID` says about every
// name, and the sequence of file system calls the child completed (from strace's log).

import (
	"bufio"
	"bytes"
	"context"
	"crypto/sha256"
	"encoding/hex"
	"fmt"
	"os"
	"os/exec"
	"path/filepath"
	"regexp"
	"sort"
	"strconv"
	"strings"
	"time"

	"github.com/restic/restic/internal/backend"
	"github.com/restic/restic/internal/backend/local"
	"github.com/restic/restic/internal/restic"
)

var _ = verifRegister("C36", streamC36)
var _ = verifRegister("C36child", streamC36Child)

func c36Data(size int, seed int) []byte {
	b := make([]byte, size)
	x := uint32(seed)*2654435761 + 12345
	for i := range b {
		x = x*1664525 + 1013904223
		b[i] = byte(x>>24) | 1 // never zero: distinguishable from preallocated space
	}
	return b
}

func c36Type(t string) backend.FileType {
	switch t {
	case "snapshot":
		return backend.SnapshotFile
	case "index":
		return backend.IndexFile
	case "lock":
		return backend.LockFile
	case "key":
		return backend.KeyFile
	}
	return backend.PackFile
}

// streamC36Child performs exactly one Save: args = dir type size seed
func streamC36Child(h *H) {
	if len(h.Args) < 4 {
		fmt.Fprintln(os.Stderr, "C36child: need dir type size seed")
		os.Exit(3)
	}
	dir, typ := h.Args[0], h.Args[1]
	size, _ := strconv.Atoi(h.Args[2])
	seed, _ := strconv.Atoi(h.Args[3])
	data := c36Data(size, seed)
	id := sha256.Sum256(data)
	be, err := local.Open(context.Background(), local.Config{Path: dir, Connections: 2}, nil)
	if err != nil {
		fmt.Fprintln(os.Stderr, "C36child: open:", err)
		os.Exit(4)
	}
	hd := backend.Handle{Type: c36Type(typ), Name: hex.EncodeToString(id[:])}
	fmt.Fprintln(os.Stderr, "C36child: save-start")
	err = be.Save(context.Background(), hd, backend.NewByteReader(data, be.Hasher()))
	if err != nil {
		fmt.Fprintln(os.Stderr, "C36child: save-error:", err)
		os.Exit(5)
	}
	fmt.Fprintln(os.Stderr, "C36child: save-ok")
}

var c36Syscalls = "openat,open,creat,write,pwrite64,fsync,fdatasync,close,rename,renameat,renameat2,fchmodat,chmod,fchmod,unlink,unlinkat,fallocate,mkdir,mkdirat,ftruncate"

// one parsed line of strace output that concerns the repository directory
type c36Call struct {
	Name     string
	Args     string
	Ret      string
	Finished bool
}

var c36LineRe = regexp.MustCompile(`^(?:\[pid\s+\d+\]\s+|\d+\s+)?([a-z0-9_]+)\((.*)$`)

// c36Parse extracts, in order, the completed calls touching `root` and the call in flight at
// the kill (if it touches root). strace -f splits calls into "<unfinished ...>" / "<... resumed>".
func c36Parse(log string, root string) (done []c36Call, inflight *c36Call) {
	pending := map[string]c36Call{} // per pid
	sc := bufio.NewScanner(strings.NewReader(log))
	sc.Buffer(make([]byte, 1<<20), 1<<24)
	for sc.Scan() {
		line := sc.Text()
		pid := ""
		rest := line
		if i := strings.IndexByte(line, ' '); i > 0 {
			if _, err := strconv.Atoi(line[:i]); err == nil {
				pid, rest = line[:i], strings.TrimLeft(line[i:], " ")
			}
		}
		if strings.HasPrefix(rest, "<... ") {
			// <... write resumed>...) = 5
			p, ok := pending[pid]
			if !ok {
				continue
			}
			delete(pending, pid)
			if j := strings.LastIndex(rest, " = "); j >= 0 {
				p.Ret = strings.TrimSpace(rest[j+3:])
			}
			if p.Ret == "?" {
				if strings.Contains(p.Args, root) {
					pp := p
					inflight = &pp
				}
				continue
			}
			p.Finished = true
			if strings.Contains(p.Args, root) {
				done = append(done, p)
			}
			continue
		}
		m := c36LineRe.FindStringSubmatch(rest)
		if m == nil {
			continue
		}
		c := c36Call{Name: m[1], Args: m[2]}
		if strings.HasSuffix(rest, "<unfinished ...>") {
			c.Args = strings.TrimSpace(strings.TrimSuffix(c.Args, "<unfinished ...>"))
			pending[pid] = c
			continue
		}
		if j := strings.LastIndex(c.Args, " = "); j >= 0 {
			c.Ret = strings.TrimSpace(c.Args[j+3:])
			c.Args = c.Args[:j]
			if c.Ret == "?" {
				// the call during which the process was killed: effect unknown
				if strings.Contains(c.Args, root) {
					cc := c
					inflight = &cc
				}
				continue
			}
			c.Finished = true
			if strings.Contains(c.Args, root) {
				done = append(done, c)
			}
		}
	}
	for _, p := range pending {
		if strings.Contains(p.Args, root) {
			pp := p
			inflight = &pp
		}
	}
	return
}

// c36Event maps a call to the model's event token ("" = irrelevant)
func c36Event(c c36Call, tmpMark string, finalName string) string {
	ok := !strings.HasPrefix(c.Ret, "-1")
	_ = tmpMark
	// a path whose last component is the final name itself / a longer name starting with it (a
	// temporary derived from it, whatever the infix of the current source is)
	isTmp, isFinal := false, false
	for rest := c.Args; ; {
		i := strings.Index(rest, finalName)
		if i < 0 {
			break
		}
		rest = rest[i+len(finalName):]
		if rest == "" || strings.ContainsRune("\">,) ", rune(rest[0])) {
			isFinal = true
		} else {
			isTmp = true
		}
	}
	if isTmp {
		isFinal = false
	}
	switch c.Name {
	case "openat", "open", "creat":
		if (strings.Contains(c.Args, "O_CREAT") || c.Name == "creat") && isTmp {
			if ok {
				return "create"
			}
			return "create-failed"
		}
		if isFinal && (c.Name == "creat" || strings.Contains(c.Args, "O_CREAT") || strings.Contains(c.Args, "O_WRONLY") || strings.Contains(c.Args, "O_RDWR") || strings.Contains(c.Args, "O_TRUNC")) {
			if ok {
				return "open-final-for-writing"
			}
			return ""
		}
		return "" // opening the directory for fsync etc.
	case "mkdir", "mkdirat":
		return "mkdir"
	case "fallocate":
		if ok {
			// fallocate(fd<path>, mode, off, len)
			f := strings.Split(strings.TrimSuffix(strings.TrimSpace(c.Args), ")"), ",")
			return "prealloc:" + strings.TrimSpace(f[len(f)-1])
		}
		return ""
	case "write", "pwrite64":
		if isFinal && ok {
			return "write-final:" + strings.Fields(c.Ret)[0]
		}
		if !isTmp {
			return ""
		}
		if ok {
			return "write:" + strings.Fields(c.Ret)[0]
		}
		return ""
	case "fsync", "fdatasync":
		if !ok {
			return ""
		}
		if isTmp {
			return "fsyncFile"
		}
		return "fsyncDir"
	case "close":
		if isTmp {
			return "close"
		}
		return ""
	case "rename", "renameat", "renameat2":
		if ok {
			return "rename"
		}
		return ""
	case "fchmodat", "chmod", "fchmod":
		return "chmod"
	case "unlink", "unlinkat":
		if ok && isTmp {
			return "unlinkTmp"
		}
		return ""
	}
	return ""
}

type c36Entry struct {
	name string
	size int64
	sum  string
}

func c36ListDir(d string) []c36Entry {
	var l []c36Entry
	filepath.Walk(d, func(p string, fi os.FileInfo, err error) error {
		if err != nil || fi.IsDir() {
			return nil
		}
		b, _ := os.ReadFile(p)
		s := sha256.Sum256(b)
		l = append(l, c36Entry{filepath.Base(p), fi.Size(), hex.EncodeToString(s[:8])})
		return nil
	})
	sort.Slice(l, func(i, j int) bool { return l[i].name < l[j].name })
	return l
}

// c36Run runs the child under strace; inject = "" for an undisturbed run.
func c36Run(dir, typ string, size, seed int, inject string) (log string, childErr string, timedOut bool) {
	self, _ := os.Executable()
	logf := filepath.Join(filepath.Dir(dir), "strace.log")
	os.Remove(logf)
	args := []string{"-f", "-y", "-s", "0", "-o", logf, "-e", "trace=" + c36Syscalls}
	if inject != "" {
		args = append(args, "-e", "inject="+inject)
	}
	args = append(args, self)
	ctx, cancel := context.WithTimeout(context.Background(), 240*time.Second)
	defer cancel()
	cmd := exec.CommandContext(ctx, "strace", args...)
	cmd.Env = append(os.Environ(), "RESTIC_VERIF_HARNESS=C36child",
		fmt.Sprintf("RESTIC_VERIF_ARGS=%s %s %d %d", dir, typ, size, seed), "GOMAXPROCS=1")
	var eb bytes.Buffer
	cmd.Stderr = &eb
	cmd.Stdout = &eb
	_ = cmd.Run()
	b, _ := os.ReadFile(logf)
	return string(b), eb.String(), ctx.Err() != nil
}

func streamC36(h *H) {
	if _, err := exec.LookPath("strace"); err != nil {
		fmt.Fprintln(os.Stderr, "C36: strace not available")
		os.Exit(7)
	}
	sizes := []int{0, 1000, 70000, 300001, 17}
	if h.Thorough() {
		sizes = []int{0, 1, 2, 100, 4095, 4096, 4097, 65536, 70000, 1 << 20, 1<<20 + 17, 3 << 20}
		for len(sizes) < 16 {
			sizes = append(sizes, 1+h.Intn(300000))
		}
	}
	types := []string{"data", "snapshot", "index", "lock", "key"}
	caseNo := 0
	for si, size := range sizes {
		typ := types[(si+int(h.Seed))%len(types)]
		premk := (si+int(h.Seed))%2 == 0 // subdirectory of the pack file exists already
		prevKind := []string{"none", "same", "none"}[(si/2+int(h.Seed))%3]
		seed := int(h.Seed)*1000 + si
		data := c36Data(size, seed)
		sum := sha256.Sum256(data)
		name := hex.EncodeToString(sum[:])

		setup := func() (root, repo string) {
			root = MkTemp("c36-")
			repo = filepath.Join(root, "repo")
			if _, err := local.Create(context.Background(), local.Config{Path: repo, Connections: 2}, nil); err != nil {
				panic(err)
			}
			be, _ := local.Open(context.Background(), local.Config{Path: repo, Connections: 2}, nil)
			final := be.Filename(backend.Handle{Type: c36Type(typ), Name: name})
			if premk || prevKind == "same" {
				os.MkdirAll(filepath.Dir(final), 0o700)
			}
			if prevKind == "same" { // the file already exists with the complete content (re-upload)
				os.WriteFile(final, data, 0o400)
			}
			return
		}
		// 1. undisturbed run: learn how many calls of each kind the save makes (and that it works)
		root, repo := setup()
		log, cerr, _ := c36Run(repo, typ, size, seed, "")
		if !strings.Contains(cerr, "save-ok") {
			h.Case("kill")
			h.Rec("setup", typ, Itoa(size), B(premk), prevKind)
			h.Rec("childfail", HexS(cerr))
			h.End()
			os.RemoveAll(root)
			continue
		}
		// count the calls per syscall name from "save-start" on: kill points are chosen per name
		done, _ := c36Parse(log, repo)
		perName := map[string]int{}
		for _, c := range done {
			perName[c.Name]++
		}
		total := map[string]int{}
		for _, line := range strings.Split(log, "\n") {
			if m := c36LineRe.FindStringSubmatch(strings.TrimLeft(strings.TrimLeft(line, "0123456789"), " ")); m != nil && !strings.Contains(line, "resumed>") {
				total[m[1]]++
			}
		}
		os.RemoveAll(root)
		var names []string
		for n := range perName {
			names = append(names, n)
		}
		sort.Strings(names)
		// 2. kill runs: for every syscall name, the last perName[n]+1 occurrences (the calls of the
		// save itself are the last ones of the process; one extra index earlier for the boundary)
		for ni, n := range names {
			// the calls of the save are the last perName[n] ones of the process; for the first
			// name also one index earlier (killed before the save) and one later (never fires)
			lo, hi := total[n]-perName[n]+1, total[n]
			if ni == 0 {
				lo, hi = lo-1, hi+1
			}
			if lo < 1 {
				lo = 1
			}
			for k := lo; k <= hi; k++ {
				caseNo++
				if h.NSh > 1 && caseNo%h.NSh != h.Shard {
					continue
				}
				root, repo := setup()
				log, cerr, to := c36Run(repo, typ, size, seed, fmt.Sprintf("%s:signal=KILL:when=%d", n, k))
				done, inflight := c36Parse(log, repo)
				killed := !strings.Contains(cerr, "save-ok") && !strings.Contains(cerr, "save-error")
				if killed && inflight == nil && len(done) > 0 && done[len(done)-1].Name == n {
					// strace reports the call at which the KILL was injected as completed although
					// the kernel may not have executed it: its effect is unknown
					last := done[len(done)-1]
					inflight = &last
					done = done[:len(done)-1]
				}
				h.Case("kill")
				h.Rec("setup", typ, Itoa(size), B(premk), prevKind, n, Itoa(k))
				h.Rec("data", Itoa(size), hex.EncodeToString(sum[:8]))
				h.Rec("name", HexS(name))
				var evs []string
				for _, c := range done {
					if e := c36Event(c, "-tmp-", name); e != "" {
						evs = append(evs, e)
					}
				}
				h.Rec("trace", evs...)
				if inflight != nil {
					c := *inflight
					c.Ret = "0"
					if c.Name == "write" || c.Name == "pwrite64" {
						c.Ret = "any"
					}
					h.Rec("inflight", c36Event(c, "-tmp-", name))
				}
				status := "killed"
				if strings.Contains(cerr, "save-ok") {
					status = "completed"
				} else if strings.Contains(cerr, "save-error") {
					status = "error"
				} else if !strings.Contains(cerr, "save-start") {
					status = "killed-before-save"
				}
				if to {
					status = "timeout"
				}
				h.Rec("status", status)
				// observation: every file below the repository
				for _, e := range c36ListDir(repo) {
					_, perr := restic.ParseID(e.name)
					role := "other"
					if e.name == name {
						role = "final"
					} else if strings.HasPrefix(e.name, name) && len(e.name) > len(name) {
						role = "tmp"
					}
					h.Rec("file", role, HexS(e.name), I64(e.size), e.sum, B(perr == nil))
				}
				h.End()
				os.RemoveAll(root)
			}
		}
	}
}
