//go:build verif

package main

// C30 — init never overwrites an existing repository.
//
// Every case prepares a backend (mem = no atomic replace, refuses to overwrite; local = atomic
// replace, overwrites silently) holding some combination of config / key / snapshot / index /
// pack files, runs the real `restic init` (CLI) or `Repository.Init` (API, for versions outside
// the CLI's range and for a caller-supplied polynomial), and reports: result class, every backend
// operation, the files before and after, and what can be read back (config fields, password
// acceptance). Records:
//
//	be mem|local
//	mode cli|api
//	pre <type> <hexname> <digest>          one per pre-existing file
//	ver latest|stable|num|invalid <n>
//	pol random | pol given <decimal>
//	fault none|stat|listkey|listsnap|savekey|savecfg
//	res ok | res err <class>
//	ev <op> <type> <hexname> <err 0/1>     in order
//	post <type> <hexname> <digest>
//	cfg <version> <hexid> <pol decimal> <irreducible 0/1> <idfresh 0/1>      (when readable)
//	open <opens 0/1> <rejects-wrong 0/1>

import (
	"context"
	"crypto/sha256"
	"encoding/hex"
	"encoding/json"
	"errors"
	"fmt"
	"os"
	"sort"
	"strconv"
	"strings"

	"github.com/restic/chunker"
	"github.com/restic/restic/internal/backend"
	"github.com/restic/restic/internal/backend/local"
	"github.com/restic/restic/internal/backend/mem"
	"github.com/restic/restic/internal/repository"
	"github.com/restic/restic/internal/restic"
)

var _ = verifRegister("C30", streamC30)

func a15Digest(b []byte) string {
	s := sha256.Sum256(b)
	return hex.EncodeToString(s[:8])
}

// a15Name maps an event/file name to the wire: the config file has no name (the repository
// layer passes the null ID, backends ignore it).
func a15Name(typ, name string) string {
	if typ == "config" {
		return "-"
	}
	return HexS(name)
}

func a15RecState(h *H, key string, st BeState) {
	for _, k := range st.Names("") {
		i := strings.IndexByte(k, '/')
		h.Rec(key, k[:i], a15Name(k[:i], k[i+1:]), a15Digest(st[k]))
	}
}

func a15RecEvents(h *H, evs []Event) {
	for _, e := range evs {
		t := e.Type
		if t == "" {
			t = "-"
		}
		h.Rec("ev", e.Op, t, a15Name(e.Type, e.Name), B(e.Err))
	}
}

var errC30Fault = errors.New("verif-fault: injected backend error")

func a15NewLocal(dir string) backend.Backend {
	be, err := local.Create(context.Background(), local.Config{Path: dir, Connections: 2}, nil)
	if err != nil {
		panic(err)
	}
	return be
}

func a15Put(be backend.Backend, t backend.FileType, name string, data []byte) {
	err := be.Save(context.Background(), backend.Handle{Type: t, Name: name}, backend.NewByteReader(data, be.Hasher()))
	if err != nil {
		panic(fmt.Sprintf("harness: pre-save %v/%v: %v", t, name, err))
	}
}

func c30ErrClass(err error) string {
	if err == nil {
		return "ok"
	}
	m := err.Error()
	switch {
	case strings.Contains(m, "verif-fault"):
		return "fault"
	case strings.Contains(m, "invalid repository version"):
		return "invalid-version"
	case strings.Contains(m, "only repository versions between"):
		return "version-range"
	case strings.Contains(m, "too high"):
		return "too-high"
	case strings.Contains(m, "too low"):
		return "too-low"
	case strings.Contains(m, "already initialized"):
		return "already-initialized"
	case strings.Contains(m, "already contains keys"):
		return "contains-keys"
	case strings.Contains(m, "already contains snapshots"):
		return "contains-snapshots"
	}
	return "other:" + HexS(m)
}

type c30Case struct {
	beKind  string // mem | local
	mode    string // cli | api
	mask    int    // bit0 config, 1 key, 2 snapshot, 3 index, 4 pack
	real    bool   // config/key copied from a real repository instead of random bytes
	keyName string // "" = random valid id
	snName  string
	verArg  string
	polKind string // random | given
	pol     uint64
	fault   string
}

func streamC30(h *H) {
	seenIDs := map[string]bool{}
	// a real repository (different password) as source of realistic pre-existing files
	var realCfg, realKey []byte
	var realKeyName string
	{
		be := mem.New()
		c := NewCLI(be)
		c.Password = "the-old-password"
		c.MustRun("init")
		st := DumpBackend(be)
		realCfg = st["config/"]
		for _, k := range st.Names("key") {
			realKey = st[k]
			realKeyName = k[len("key/"):]
		}
		r := c.MustRun("cat", "config")
		var cfg restic.Config
		if json.Unmarshal([]byte(r.Stdout), &cfg) == nil {
			seenIDs[cfg.ID] = true
		}
	}
	randID := func() string { return hex.EncodeToString(h.Bytes(32)) }
	weirdNames := []string{"nothex", strings.Repeat("g", 64), strings.Repeat("a", 63), strings.ToUpper(randID()), "00", strings.Repeat("0", 64)}

	run := func(c c30Case) {
		var inner backend.Backend
		var dir string
		if c.beKind == "local" {
			dir = MkTemp("c30-")
			defer os.RemoveAll(dir)
			inner = a15NewLocal(dir)
		} else {
			inner = mem.New()
		}
		kn, sn := c.keyName, c.snName
		if kn == "" {
			kn = randID()
		}
		if sn == "" {
			sn = randID()
		}
		if c.mask&1 != 0 {
			d := h.Bytes(40 + h.Intn(100))
			if c.real {
				d = realCfg
			}
			a15Put(inner, backend.ConfigFile, "", d)
		}
		if c.mask&2 != 0 {
			d := h.Bytes(100 + h.Intn(300))
			if c.real && c.keyName == "" {
				d, kn = realKey, realKeyName
			}
			a15Put(inner, backend.KeyFile, kn, d)
		}
		if c.mask&4 != 0 {
			a15Put(inner, backend.SnapshotFile, sn, h.Bytes(100+h.Intn(200)))
		}
		if c.mask&8 != 0 {
			a15Put(inner, backend.IndexFile, randID(), h.Bytes(200))
		}
		if c.mask&16 != 0 {
			a15Put(inner, backend.PackFile, randID(), h.Bytes(500))
		}
		pre := DumpBackend(inner)
		rec := NewRecBackend(inner)
		rec.FailOp = func(op string, hd backend.Handle, _ int) error {
			hit := false
			switch c.fault {
			case "stat":
				hit = op == "stat" && hd.Type == backend.ConfigFile
			case "listkey":
				hit = op == "list" && hd.Type == backend.KeyFile
			case "listsnap":
				hit = op == "list" && hd.Type == backend.SnapshotFile
			case "savekey":
				hit = op == "save" && hd.Type == backend.KeyFile
			case "savecfg":
				hit = op == "save" && hd.Type == backend.ConfigFile
			}
			if hit {
				return errC30Fault
			}
			return nil
		}

		h.Case(c.mode)
		h.Rec("be", c.beKind)
		h.Rec("mode", c.mode)
		a15RecState(h, "pre", pre)
		// the version argument as the switch in runInit sees it
		switch c.verArg {
		case "latest", "":
			h.Rec("ver", "latest", "0", HexS(c.verArg))
		case "stable":
			h.Rec("ver", "stable", "0", HexS(c.verArg))
		default:
			if v, err := strconv.ParseUint(c.verArg, 10, 32); err == nil {
				h.Rec("ver", "num", U64(v), HexS(c.verArg))
			} else {
				h.Rec("ver", "invalid", "0", HexS(c.verArg))
			}
		}
		if c.polKind == "given" {
			h.Rec("pol", "given", U64(c.pol))
		} else {
			h.Rec("pol", "random")
		}
		h.Rec("fault", c.fault)

		password := "pw-" + hex.EncodeToString(h.Bytes(4))
		var runErr error
		var panicMsg string
		if c.mode == "cli" {
			cli := NewCLI(rec)
			cli.Password = password
			args := []string{"init"}
			if c.verArg != "stable" || h.Bool() {
				args = append(args, "--repository-version", c.verArg)
			}
			r := cli.Run(args...)
			runErr, panicMsg = r.Err, r.Panic
		} else {
			v, _ := strconv.ParseUint(c.verArg, 10, 32)
			var pol *chunker.Pol
			if c.polKind == "given" {
				p := chunker.Pol(c.pol)
				pol = &p
			}
			var panicked bool
			panicked, panicMsg = Protect(func() {
				repo, err := repository.New(rec, repository.Options{})
				if err != nil {
					panic(err)
				}
				runErr = repo.Init(context.Background(), uint(v), password, pol)
			})
			_ = panicked
		}
		evs := append([]Event(nil), rec.Events...)
		switch {
		case panicMsg != "":
			h.Rec("res", "panic", HexS(panicMsg))
		case runErr == nil:
			h.Rec("res", "ok")
		default:
			h.Rec("res", "err", c30ErrClass(runErr))
		}
		a15RecEvents(h, evs)
		post := DumpBackend(inner)
		a15RecState(h, "post", post)
		if runErr == nil && panicMsg == "" {
			cli := NewCLI(inner)
			cli.Password = password
			r := cli.Run("cat", "config")
			var cfg restic.Config
			if r.Err == nil && json.Unmarshal([]byte(r.Stdout), &cfg) == nil {
				idOK := len(cfg.ID) == 64 && strings.ToLower(cfg.ID) == cfg.ID
				if _, err := hex.DecodeString(cfg.ID); err != nil {
					idOK = false
				}
				fresh := idOK && !seenIDs[cfg.ID]
				seenIDs[cfg.ID] = true
				h.Rec("cfg", U64(uint64(cfg.Version)), HexS(cfg.ID), U64(uint64(cfg.ChunkerPolynomial)),
					B(cfg.ChunkerPolynomial.Irreducible()), B(fresh))
			}
			cli.Password = "wrong-" + password
			r2 := cli.Run("cat", "config")
			h.Rec("open", B(r.Err == nil), B(r2.Err != nil && errors.Is(r2.Err, repository.ErrNoKeyFound)))
		}
		h.End()
	}

	// exhaustive core: 2^5 file combinations x versions 0..3 x mode x backend
	for _, bk := range []string{"mem", "local"} {
		for mask := 0; mask < 32 && h.Shard == 0; mask++ {
			for v := 0; v <= 3; v++ {
				run(c30Case{beKind: bk, mode: "cli", mask: mask, verArg: strconv.Itoa(v), polKind: "random", fault: "none", real: (mask+v)%2 == 0})
				if bk == "mem" || mask%4 == 0 {
					given := (mask+v)%3 != 0
					run(c30Case{beKind: bk, mode: "api", mask: mask, verArg: strconv.Itoa(v), polKind: map[bool]string{true: "given", false: "random"}[given],
						pol: []uint64{0x3DA3358B4DC173, 0x3DA3358B4DC174, 0x2e6b91ee8acb25}[(mask+v)%3], fault: "none"})
				}
			}
		}
	}
	// generated extras: version spellings, odd names, faults
	verArgs := []string{"latest", "stable", "", "abc", "-1", "4294967296", "01", "2", "1", "1", "2", "+2", "2 ", "0x2", "3", "0"}
	faults := []string{"none", "none", "none", "stat", "listkey", "listsnap", "savekey", "savecfg"}
	n := h.N(60, 800)
	for i := 0; i < n; i++ {
		c := c30Case{beKind: h.Pick([]string{"mem", "local"}), mode: "cli", polKind: "random"}
		// mostly empty or nearly empty locations, so that the creating path is exercised
		switch h.Intn(4) {
		case 0:
			c.mask = h.Intn(32)
		case 1:
			c.mask = h.Intn(4) << 3
		default:
			c.mask = h.Intn(8)
		}
		c.real = h.Bool()
		c.verArg = h.Pick(verArgs)
		c.fault = h.Pick(faults)
		if h.Intn(3) == 0 {
			c.keyName = h.Pick(weirdNames)
		}
		if h.Intn(3) == 0 {
			c.snName = h.Pick(weirdNames)
		}
		if h.Intn(4) == 0 {
			c.mode = "api"
			c.verArg = strconv.Itoa(h.Intn(5))
			if h.Bool() {
				c.polKind = "given"
				c.pol = h.Rng.Uint64() >> uint(h.Intn(12))
			}
		}
		run(c)
	}
	_ = sort.Strings
}
