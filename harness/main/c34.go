//go:build verif

package main

// C34 — repair packs and repair snapshots salvage all intact data.
// Scenario per case pair: a real repository (backups of generated trees), pack files damaged at a
// region-stratified corruption site (bit flip inside a blob / the header / the length field,
// truncation inside a blob / at a boundary / inside the header / to zero, deletion), optionally an
// incomplete index entry for the damaged pack, optionally hand-damaged trees (missing content,
// wrong size, missing subtree, node of irregular type). Then the real CLI runs
//   repair packs <ids>        -> case "packs"
//   repair snapshots --forget -> case "snapshots"   followed by `check [--read-data]`.
// Which blobs "can still be read" is decided by the harness itself from the raw pack bytes
// (decrypt + decompress + hash), independently of streamPack / RepairPacks.

import (
	"context"
	"crypto/sha256"
	"encoding/hex"
	"encoding/json"
	"fmt"
	"os"
	"sort"
	"time"

	"github.com/restic/restic/internal/backend"
	"github.com/restic/restic/internal/backend/mem"
	"github.com/restic/restic/internal/data"
	"github.com/restic/restic/internal/repository"
	"github.com/restic/restic/internal/restic"
)

var _ = verifRegister("C34", streamC34)

type c34Handle struct {
	Typ int
	ID  restic.ID
}

func (k c34Handle) toks() []string { return []string{Itoa(k.Typ), a16Short(k.ID)} }

// c34Direct computes, for every index entry and (for `named` packs) header entry, whether the
// blob can be read from the stored bytes. Returns the set of handles available per pack.
type c34Avail struct {
	raw map[restic.ID][]byte
}

func c34NewAvail(be backend.Backend, packs []a16PackInfo) *c34Avail {
	a := &c34Avail{raw: map[restic.ID][]byte{}}
	for _, p := range packs {
		a.raw[p.ID] = a16Raw(be, backend.PackFile, p.ID.String())
	}
	return a
}

func (a *c34Avail) direct(repo *repository.Repository, pack restic.ID, e a16Entry) bool {
	raw, ok := a.raw[pack]
	if !ok {
		return false
	}
	return a16BlobReadable(repo, raw, e)
}

// c34TreeKeys gives every tree blob reachable from a snapshot a run-independent key: position of
// the first snapshot (creation order) that reaches it and its depth / child position below the
// root. Tree blob IDs themselves differ from run to run (ctime, inode, temp dir names).
func c34TreeKeys(repo *repository.Repository) map[restic.ID]string {
	ctx := context.Background()
	keys := map[restic.ID]string{}
	var walk func(id restic.ID, key string)
	walk = func(id restic.ID, key string) {
		if _, ok := keys[id]; ok {
			return
		}
		keys[id] = key
		it, err := data.LoadTree(ctx, repo, id)
		if err != nil {
			return
		}
		i := 0
		for item := range it {
			if item.Error != nil {
				return
			}
			if item.Node.Type == data.NodeTypeDir && item.Node.Subtree != nil {
				walk(*item.Node.Subtree, fmt.Sprintf("%s/%02d", key, i))
			}
			i++
		}
	}
	for i, sn := range a16Snapshots(repo) {
		if sn.Tree != nil {
			walk(*sn.Tree, fmt.Sprintf("%02d", i))
		}
	}
	return keys
}

// c34Canon orders the entries of a pack independently of their offsets (blob order inside a pack
// is decided by restic's concurrent savers): data blobs by ID (content is generated from the
// seed), tree blobs by their tree key.
func c34Canon(p a16PackInfo, treeKeys map[restic.ID]string) []a16Entry {
	l := append([]a16Entry(nil), p.Entries...)
	key := func(e a16Entry) string {
		if e.Typ == 1 {
			if k, ok := treeKeys[e.ID]; ok {
				return "t" + k
			}
			return "u" + e.ID.String()
		}
		return "d" + e.ID.String()
	}
	sort.SliceStable(l, func(i, j int) bool { return key(l[i]) < key(l[j]) })
	return l
}

// c34Corrupt damages one pack; returns a label. canon = the pack's entries in canonical order
// (used for every "which blob" choice).
func c34Corrupt(h *H, be *mem.MemoryBackend, p a16PackInfo, canon []a16Entry) string {
	name := p.ID.String()
	raw := a16Raw(be, backend.PackFile, name)
	n := len(raw)
	endBlobs := 0
	for _, e := range p.Entries {
		if int(e.Off+e.Len) > endBlobs {
			endBlobs = int(e.Off + e.Len)
		}
	}
	flip := func(pos int) {
		raw[pos] ^= byte(1 << uint(h.Intn(8)))
		a16Replace(be, backend.PackFile, name, raw)
	}
	pickBlob := func() (a16Entry, bool) {
		if len(canon) == 0 {
			return a16Entry{}, false
		}
		return canon[h.Intn(len(canon))], true
	}
	switch h.Intn(10) {
	case 0, 1, 2: // bit flip inside one blob
		if e, ok := pickBlob(); ok && e.Len > 0 {
			flip(int(e.Off) + h.Intn(int(e.Len)))
			return "flip-blob"
		}
	case 3: // bit flip inside the encrypted header
		if n-4 > endBlobs {
			flip(endBlobs + h.Intn(n-4-endBlobs))
			return "flip-header"
		}
	case 4: // bit flip in the header length field
		if n >= 4 {
			flip(n - 4 + h.Intn(4))
			return "flip-hdrlen"
		}
	case 5: // truncate inside a blob
		if e, ok := pickBlob(); ok && e.Len > 1 {
			a16Replace(be, backend.PackFile, name, raw[:int(e.Off)+1+h.Intn(int(e.Len)-1)])
			return "trunc-in-blob"
		}
	case 6: // truncate at a blob boundary (possibly 0)
		if e, ok := pickBlob(); ok {
			cut := int(e.Off)
			if h.Bool() {
				cut = int(e.Off + e.Len)
			}
			a16Replace(be, backend.PackFile, name, raw[:cut])
			return "trunc-boundary"
		}
	case 7: // truncate inside the header
		if n-1 > endBlobs {
			a16Replace(be, backend.PackFile, name, raw[:endBlobs+1+h.Intn(n-1-endBlobs)])
			return "trunc-in-header"
		}
	case 8:
		a16Remove(be, backend.PackFile, name)
		return "pack-deleted"
	case 9: // two flips in different blobs
		if len(canon) >= 2 {
			i := h.Intn(len(canon))
			j := (i + 1 + h.Intn(len(canon)-1)) % len(canon)
			for _, k := range []int{i, j} {
				e := canon[k]
				if e.Len > 0 {
					raw[int(e.Off)+h.Intn(int(e.Len))] ^= 0x10
				}
			}
			a16Replace(be, backend.PackFile, name, raw)
			return "flip-two-blobs"
		}
	}
	a16Remove(be, backend.PackFile, name)
	return "pack-deleted"
}

// c34IndexDamage makes the index entry of pack `victim` incomplete or drops it entirely.
func c34IndexDamage(h *H, repo *repository.Repository, be *mem.MemoryBackend, victim restic.ID) string {
	idxs := a16Indexes(repo, be)
	mode := h.Intn(2)
	done := false
	for _, ix := range idxs {
		if !ix.OK {
			continue
		}
		var ps []a16IdxPack
		found := false
		for _, p := range ix.Packs {
			if p.Pack == victim {
				found = true
				if mode == 0 && len(p.Entries) > 1 {
					keep := 1 + h.Intn(len(p.Entries)-1)
					perm := h.Rng.Perm(len(p.Entries))[:keep]
					sort.Ints(perm)
					var es []a16Entry
					for _, k := range perm {
						es = append(es, p.Entries[k])
					}
					ps = append(ps, a16IdxPack{Pack: p.Pack, Entries: es})
				}
				continue
			}
			ps = append(ps, p)
		}
		if found {
			if len(ps) > 0 {
				a16SaveIndex(repo, ps)
			}
			a16Remove(be, backend.IndexFile, ix.ID.String())
			done = true
		}
	}
	if !done {
		return "none"
	}
	if mode == 0 {
		return "index-incomplete"
	}
	return "index-forgot-pack"
}

// --- trees ----------------------------------------------------------------------------------

func c34NodeMeta(n *data.Node) string {
	c := *n
	c.Content = nil
	c.Size = 0
	c.Subtree = nil
	b, err := json.Marshal(&c)
	if err != nil {
		return "jsonerr"
	}
	s := sha256.Sum256(b)
	return hex.EncodeToString(s[:6])
}

// c34DumpTrees writes tree/node records (prefix pfx) for everything reachable from roots.
func c34DumpTrees(h *H, repo *repository.Repository, roots []restic.ID, pfx string) {
	ctx := context.Background()
	seen := map[restic.ID]bool{}
	var walk func(id restic.ID)
	walk = func(id restic.ID) {
		if seen[id] {
			return
		}
		seen[id] = true
		it, err := data.LoadTree(ctx, repo, id)
		if err != nil {
			h.Rec(pfx+"tree", a16Short(id), "bad")
			return
		}
		var nodes []*data.Node
		for item := range it {
			if item.Error != nil {
				h.Rec(pfx+"tree", a16Short(id), "bad")
				return
			}
			nodes = append(nodes, item.Node)
		}
		h.Rec(pfx+"tree", a16Short(id), "ok")
		var subs []restic.ID
		for _, n := range nodes {
			sub := "-"
			if n.Type == data.NodeTypeDir {
				if n.Subtree != nil {
					sub = a16Short(*n.Subtree)
					subs = append(subs, *n.Subtree)
				} else {
					sub = "null"
				}
			}
			typ := string(n.Type)
			if typ == "" {
				typ = "invalid"
			}
			toks := []string{a16Short(id), typ, HexS(n.Name), U64(n.Size), sub, c34NodeMeta(n)}
			for _, c := range n.Content {
				toks = append(toks, a16Short(c))
			}
			h.Rec(pfx+"node", toks...)
		}
		for _, s := range subs {
			walk(s)
		}
	}
	for _, r := range roots {
		walk(r)
	}
}

// c34CraftSnapshot saves a snapshot whose tree is a copy of an existing one with one hand-damaged
// tree somewhere below the root (ancestors are re-saved with the new subtree ids).
func c34CraftSnapshot(h *H, repo *repository.Repository, root restic.ID) string {
	ctx := context.Background()
	type jtree struct {
		Nodes []map[string]any `json:"nodes"`
	}
	load := func(id restic.ID) (*jtree, bool) {
		buf, err := repo.LoadBlob(ctx, restic.BlobHandle{Type: restic.TreeBlob, ID: id}, nil)
		if err != nil {
			return nil, false
		}
		t := &jtree{}
		if err := json.Unmarshal(buf, t); err != nil {
			return nil, false
		}
		return t, true
	}
	// random descent: chain of (tree, index of the child dir taken)
	type step struct {
		t     *jtree
		child int
	}
	var chain []step
	cur, ok := load(root)
	if !ok || len(cur.Nodes) == 0 {
		return "none"
	}
	for depth := 0; depth < 8; depth++ {
		var dirs []int
		hasFile := false
		for i, n := range cur.Nodes {
			if n["type"] == "dir" && n["subtree"] != nil {
				dirs = append(dirs, i)
			}
			if n["type"] == "file" {
				hasFile = true
			}
		}
		if len(dirs) == 0 || (hasFile && h.Intn(3) == 0) {
			break
		}
		k := dirs[h.Intn(len(dirs))]
		sid, err := restic.ParseID(cur.Nodes[k]["subtree"].(string))
		if err != nil {
			break
		}
		next, ok := load(sid)
		if !ok || len(next.Nodes) == 0 {
			break
		}
		chain = append(chain, step{cur, k})
		cur = next
	}
	tree := cur
	label := "none"
	k := h.Intn(len(tree.Nodes))
	n := tree.Nodes[k]
	missing := restic.Hash(h.Bytes(16)).String()
	switch h.Intn(6) {
	case 0:
		if n["type"] == "file" {
			c, _ := n["content"].([]any)
			pos := 0
			if len(c) > 0 {
				pos = h.Intn(len(c) + 1)
			}
			c = append(c[:pos:pos], append([]any{missing}, c[pos:]...)...)
			n["content"] = c
			label = "tree-missing-content"
		}
	case 1:
		if n["type"] == "file" {
			sz, _ := n["size"].(float64)
			n["size"] = sz + float64(1+h.Intn(100))
			label = "tree-wrong-size"
		}
	case 2:
		if n["type"] == "dir" {
			n["subtree"] = missing
			label = "tree-missing-subtree"
		}
	case 3:
		if n["type"] == "dir" {
			delete(n, "subtree")
			label = "tree-null-subtree"
		}
	case 4:
		n["type"] = "irregular"
		delete(n, "subtree")
		delete(n, "content")
		label = "tree-irregular-node"
	case 5:
		if n["type"] == "file" {
			n["content"] = []any{missing}
			label = "tree-all-content-missing"
		}
	}
	if label == "none" {
		return label
	}
	var newRoot restic.ID
	err := repo.WithBlobUploader(ctx, func(ctx context.Context, up restic.BlobSaverWithAsync) error {
		save := func(t *jtree) (restic.ID, error) {
			nb, err := json.Marshal(t)
			if err != nil {
				return restic.ID{}, err
			}
			nb = append(nb, '\n')
			id, _, _, err := up.SaveBlob(ctx, restic.TreeBlob, nb, restic.ID{}, false)
			return id, err
		}
		id, err := save(tree)
		if err != nil {
			return err
		}
		for i := len(chain) - 1; i >= 0; i-- {
			chain[i].t.Nodes[chain[i].child]["subtree"] = id.String()
			id, err = save(chain[i].t)
			if err != nil {
				return err
			}
		}
		newRoot = id
		return nil
	})
	if err != nil {
		panic(err)
	}
	sn, err := data.NewSnapshot([]string{"/crafted"}, []string{"crafted"}, "verif", time.Unix(1700000000+int64(h.Intn(100000)), 0))
	if err != nil {
		panic(err)
	}
	sn.Tree = &newRoot
	if _, err := data.SaveSnapshot(ctx, repo, sn); err != nil {
		panic(err)
	}
	return label
}

func c34BlobSize(e a16Entry) uint {
	if e.ULen != 0 {
		return e.ULen
	}
	if e.Len >= 32 {
		return e.Len - 32
	}
	return 0
}

func c34Timing(what string, t0 time.Time) {
	if os.Getenv("RESTIC_VERIF_DEBUG") != "" {
		fmt.Fprintf(os.Stderr, "timing %s %v\n", what, time.Since(t0))
	}
}

func c34Trace(h *H, rec *RecBackend) {
	c33RecordTrace(h, rec)
}

func streamC34(h *H) {
	n := h.N(24, 240)
	var base BeState
	for i := 0; i < n; i++ {
		if i%6 == 0 {
			v := ""
			if h.Intn(5) == 0 {
				v = "1"
			}
			base = a16Base(h, 2+h.Intn(3), v)
		}
		restoreCwd := a16Chdir() // repair packs writes pack-<id> copies (O_EXCL) into the cwd
		c34Case(h, base)
		restoreCwd()
	}
}

func c34Case(h *H, base BeState) {
	ctx := context.Background()
	tCase := time.Now()
	defer func() { c34Timing("case-total", tCase) }()
	be := LoadBackend(base)
	repo := OpenRepoOn(be, "geheim")
	packs0 := a16Packs(repo, be)
	var labels []string

	// hand-damaged tree in an extra snapshot (before pack damage so that its blobs are stored healthy)
	if h.Intn(2) == 0 {
		if err := repo.LoadIndex(ctx, restic.NoopTerminalCounterFactory); err != nil {
			panic(err)
		}
		sns := a16Snapshots(repo)
		if len(sns) > 0 {
			labels = append(labels, c34CraftSnapshot(h, repo, *sns[h.Intn(len(sns))].Tree))
		}
		repo = OpenRepoOn(be, "geheim")
		a16Note(repo, be)
		packs0 = a16Packs(repo, be)
	}

	keysNow := func() map[restic.ID]string {
		r := OpenRepoOn(be, "geheim")
		if err := r.LoadIndex(ctx, restic.NoopTerminalCounterFactory); err != nil {
			panic(err)
		}
		return c34TreeKeys(r)
	}
	// now and then store a second copy of some blobs (exercises the LoadBlob fallback of streamPack)
	if h.Intn(4) == 0 && len(packs0) > 0 {
		if err := repo.LoadIndex(ctx, restic.NoopTerminalCounterFactory); err != nil {
			panic(err)
		}
		dupKeys := keysNow()
		err := repo.WithBlobUploader(ctx, func(ctx context.Context, up restic.BlobSaverWithAsync) error {
			for k := 0; k < 3; k++ {
				p := packs0[h.Intn(len(packs0))]
				if len(p.Entries) == 0 {
					continue
				}
				cn := c34Canon(p, dupKeys)
				e := cn[h.Intn(len(cn))]
				buf, err := repo.LoadBlob(ctx, e.blob().BlobHandle, nil)
				if err != nil {
					continue
				}
				if _, _, _, err := up.SaveBlob(ctx, e.blob().Type, buf, e.ID, true); err != nil {
					return err
				}
			}
			return nil
		})
		if err != nil {
			panic(err)
		}
		labels = append(labels, "duplicate-blobs")
		repo = OpenRepoOn(be, "geheim")
		a16Note(repo, be)
		// only the original packs are candidates for damage (packs0 unchanged on purpose)
	}

	treeKeys := keysNow()
	// damage 1..2 packs, name them (sometimes name a healthy one as well, sometimes forget one)
	nv := 1 + h.Intn(2)
	perm := h.Rng.Perm(len(packs0))
	var named []restic.ID
	damaged := map[restic.ID]bool{}
	for k := 0; k < nv && k < len(perm); k++ {
		p := packs0[perm[k]]
		labels = append(labels, c34Corrupt(h, be, p, c34Canon(p, treeKeys)))
		damaged[p.ID] = true
		if h.Intn(4) == 0 {
			labels = append(labels, c34IndexDamage(h, repo, be, p.ID))
		}
		named = append(named, p.ID)
	}
	allNamed := true
	if len(named) > 1 && h.Intn(8) == 0 {
		named = named[:len(named)-1]
		allNamed = false
		labels = append(labels, "one-damaged-pack-not-named")
	}
	if len(perm) > nv && h.Intn(6) == 0 {
		named = append(named, packs0[perm[nv]].ID)
		labels = append(labels, "healthy-pack-named")
	}
	if h.Intn(10) == 0 {
		named = append(named, restic.Hash(h.Bytes(8)))
		labels = append(labels, "unknown-id-named")
	}
	sort.Strings(labels)

	c34Timing("setup+damage", tCase)
	// ---- case "packs"
	repo = OpenRepoOn(be, "geheim")
	packs := a16Packs(repo, be)
	idxs := a16Indexes(repo, be)
	av := c34NewAvail(be, packs)
	isNamed := map[restic.ID]bool{}
	for _, id := range named {
		isNamed[id] = true
	}
	// all index entries (merged, identical entries once)
	type pe struct {
		pack restic.ID
		e    a16Entry
	}
	var ients []pe
	seenE := map[string]bool{}
	for _, ix := range idxs {
		for _, p := range ix.Packs {
			for _, e := range p.Entries {
				k := p.Pack.String() + fmt.Sprint(e)
				if !seenE[k] {
					seenE[k] = true
					ients = append(ients, pe{p.Pack, e})
				}
			}
		}
	}
	// handles readable via some index entry (what the LoadBlob fallback can reach)
	via := map[c34Handle]bool{}
	other := map[c34Handle]bool{} // readable via an index entry in a pack that is not named
	for _, x := range ients {
		if av.direct(repo, x.pack, x.e) {
			k := c34Handle{x.e.Typ, x.e.ID}
			via[k] = true
			if !isNamed[x.pack] {
				other[k] = true
			}
		}
	}

	h.Case("packs")
	h.Rec("dmg", labels...)
	h.Rec("allnamed", B(allNamed))
	var namedToks []string
	for _, id := range named {
		namedToks = append(namedToks, a16Short(id))
	}
	h.Rec("named", namedToks...)
	for _, id := range named {
		var pi *a16PackInfo
		for k := range packs {
			if packs[k].ID == id {
				pi = &packs[k]
			}
		}
		st, hd := "missing", "-"
		if pi != nil {
			st = "exists"
			hd = "bad"
			if pi.HdrOK {
				hd = "ok"
			}
		}
		h.Rec("np", a16Short(id), st, hd)
		for _, x := range ients {
			if x.pack == id {
				h.Rec("nie", append(append([]string{a16Short(id)}, x.e.toks()...), B(av.direct(repo, id, x.e)), B(via[c34Handle{x.e.Typ, x.e.ID}]))...)
			}
		}
		if pi != nil && pi.HdrOK {
			for _, e := range pi.Entries {
				h.Rec("nhe", append(append([]string{a16Short(id)}, e.toks()...), B(av.direct(repo, id, e)), B(via[c34Handle{e.Typ, e.ID}]))...)
			}
		}
	}
	var oks []c34Handle
	for k := range other {
		oks = append(oks, k)
	}
	sort.Slice(oks, func(i, j int) bool { return oks[i].ID.String() < oks[j].ID.String() })
	for _, k := range oks {
		h.Rec("other", k.toks()...)
	}

	c34Timing("pre-records", tCase)
	rec := NewRecBackend(be)
	cli := NewCLI(rec)
	args := append([]string{"repair", "packs"}, func() []string {
		var l []string
		for _, id := range named {
			l = append(l, id.String())
		}
		return l
	}()...)
	t0 := time.Now()
	r := cli.Run(args...)
	c34Timing("repair-packs", t0)
	h.Rec("res", a16ErrKind(r), HexS(a16OneLine(fmt.Sprint(r.Err)+"|"+r.Stderr)))
	c34Trace(h, rec)
	a16RemoveLocks(be)

	repo = OpenRepoOn(be, "geheim")
	packsAfter := a16Packs(repo, be)
	idxAfter := a16Indexes(repo, be)
	before := map[restic.ID]bool{}
	for _, p := range packs {
		before[p.ID] = true
	}
	avAfter := c34NewAvail(be, packsAfter)
	for _, p := range packsAfter {
		h.Rec("postpack", a16Short(p.ID), B(!before[p.ID]))
		if !before[p.ID] && p.HdrOK {
			for _, e := range p.Entries {
				h.Rec("postnew", Itoa(e.Typ), a16Short(e.ID), B(avAfter.direct(repo, p.ID, e)))
			}
		}
	}
	availAfter := map[c34Handle]bool{}
	for _, ix := range idxAfter {
		if !ix.OK {
			h.Rec("postidxbad", a16Short(ix.ID))
		}
		for _, p := range ix.Packs {
			h.Rec("postidxpack", a16Short(p.Pack))
			for _, e := range p.Entries {
				if avAfter.direct(repo, p.Pack, e) {
					availAfter[c34Handle{e.Typ, e.ID}] = true
				}
			}
		}
	}
	var aks []c34Handle
	for k := range availAfter {
		aks = append(aks, k)
	}
	sort.Slice(aks, func(i, j int) bool { return aks[i].ID.String() < aks[j].ID.String() })
	for _, k := range aks {
		h.Rec("postavail", k.toks()...)
	}
	h.End()

	if r.Err != nil {
		return
	}

	c34Timing("post-records-packs", tCase)
	// ---- case "snapshots"
	h.Case("snapshots")
	h.Rec("dmg", labels...)
	h.Rec("allnamed", B(allNamed))
	// handles the index lists although no listed copy can be read (possible only when a damaged
	// pack was not named): `repair snapshots` cannot know, it works from the index
	listed := map[c34Handle]bool{}
	for _, ix := range idxAfter {
		for _, p := range ix.Packs {
			for _, e := range p.Entries {
				listed[c34Handle{e.Typ, e.ID}] = true
			}
		}
	}
	var liars []c34Handle
	for k := range listed {
		if !availAfter[k] {
			liars = append(liars, k)
		}
	}
	sort.Slice(liars, func(i, j int) bool { return liars[i].ID.String() < liars[j].ID.String() })
	for _, k := range liars {
		h.Rec("liar", k.toks()...)
	}
	// index view of availability (what LookupBlobSize answers): first entry wins
	seenH := map[c34Handle]bool{}
	for _, ix := range idxAfter {
		for _, p := range ix.Packs {
			for _, e := range p.Entries {
				k := c34Handle{e.Typ, e.ID}
				if !seenH[k] {
					seenH[k] = true
					h.Rec("avail", Itoa(e.Typ), a16Short(e.ID), Itoa(int(c34BlobSize(e))))
				}
			}
		}
	}
	if err := repo.LoadIndex(ctx, restic.NoopTerminalCounterFactory); err != nil {
		h.Rec("res", "harness-loadindex-failed")
		h.End()
		return
	}
	sns := a16Snapshots(repo)
	var roots []restic.ID
	for _, sn := range sns {
		h.Rec("snap", a16Short(*sn.ID()), a16Short(*sn.Tree))
		roots = append(roots, *sn.Tree)
	}
	c34DumpTrees(h, repo, roots, "")

	rec2 := NewRecBackend(be)
	cli2 := NewCLI(rec2)
	t0 = time.Now()
	r2 := cli2.Run("repair", "snapshots", "--forget")
	c34Timing("repair-snapshots", t0)
	h.Rec("res", a16ErrKind(r2), HexS(a16OneLine(r2.Stderr)))
	c34Trace(h, rec2)
	a16RemoveLocks(be)

	repo = OpenRepoOn(be, "geheim")
	if err := repo.LoadIndex(ctx, restic.NoopTerminalCounterFactory); err != nil {
		h.Rec("postres", "harness-loadindex-failed")
		h.End()
		return
	}
	for _, ix := range a16Indexes(repo, be) {
		for _, p := range ix.Packs {
			for _, e := range p.Entries {
				h.Rec("pavail", Itoa(e.Typ), a16Short(e.ID), Itoa(int(c34BlobSize(e))))
			}
		}
	}
	sns2 := a16Snapshots(repo)
	roots = nil
	for _, sn := range sns2 {
		orig := "-"
		if sn.Original != nil {
			orig = a16Short(*sn.Original)
		}
		h.Rec("psnap", a16Short(*sn.ID()), a16Short(*sn.Tree), orig)
		roots = append(roots, *sn.Tree)
	}
	c34DumpTrees(h, repo, roots, "p")

	t0 = time.Now()
	chk := NewCLI(be).Run("check")
	c34Timing("check", t0)
	t0 = time.Now()
	h.Rec("check", a16ErrKind(chk), HexS(a16OneLine(chk.Stderr)))
	a16RemoveLocks(be)
	chk = NewCLI(be).Run("check", "--read-data")
	c34Timing("check-read-data", t0)
	h.Rec("checkdata", a16ErrKind(chk), HexS(a16OneLine(chk.Stderr)))
	a16RemoveLocks(be)
	h.End()
}
