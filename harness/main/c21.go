//go:build verif

package main

import (
	"context"
	"os"
	"path/filepath"
	"strings"
	"sync"
	"time"

	"github.com/restic/restic/internal/data"
	"github.com/restic/restic/internal/restic"
	"github.com/restic/restic/internal/restorer"
)

var _ = verifRegister("C21", streamC21)

// RLE encodes a byte string as one token: hex, with runs of >= 16 zero bytes written as z<n>,
// parts joined by '.'; "-" = empty.
func RLE(b []byte) string {
	if len(b) == 0 {
		return "-"
	}
	var parts []string
	i := 0
	for i < len(b) {
		j := i
		for j < len(b) && b[j] == 0 {
			j++
		}
		if j-i >= 16 {
			parts = append(parts, "z"+Itoa(j-i))
			i = j
			continue
		}
		// literal run up to the next long zero run
		k := i
		for k < len(b) {
			if b[k] == 0 {
				z := k
				for z < len(b) && b[z] == 0 {
					z++
				}
				if z-k >= 16 {
					break
				}
				k = z
				continue
			}
			k++
		}
		parts = append(parts, Hex(b[i:k]))
		i = k
	}
	return strings.Join(parts, ".")
}

type c21File struct {
	name  string
	parts [][]byte
	size  uint64 // node.Size
	node  *vNode
}

func (f *c21File) content() []byte {
	var b []byte
	for _, p := range f.parts {
		b = append(b, p...)
	}
	return b
}

// c21VerifyClass maps a verifyFile error to the model's error class.
func c21VerifyClass(err error) string {
	s := err.Error()
	switch {
	case strings.Contains(s, "Invalid file size"):
		return "size"
	case strings.Contains(s, "Unexpected content"):
		return "content"
	case strings.Contains(s, "to be a regular file"):
		return "notregular"
	case s == "EOF" || strings.HasSuffix(s, ": EOF"):
		return "eof"
	case strings.Contains(s, "too many levels of symbolic links"), strings.Contains(s, "no such file"), strings.Contains(s, "permission denied"):
		return "open"
	}
	return "other:" + strings.ReplaceAll(s, " ", "_")
}

func c21GenParts(h *H) [][]byte {
	var parts [][]byte
	nb := h.Intn(5)
	switch h.Intn(12) {
	case 0:
		nb = 0
	case 1:
		nb = 26 + h.Intn(5) // "large file" code path of the restorer
	}
	for i := 0; i < nb; i++ {
		var n int
		switch h.Intn(8) {
		case 0:
			n = 0
		case 1:
			n = 1
		case 2:
			n = 200 + h.Intn(2000)
		default:
			n = 1 + h.Intn(24)
		}
		p := h.Bytes(n)
		if h.Intn(4) == 0 { // zero runs inside
			for k := range p {
				if h.Intn(3) > 0 {
					p[k] = 0
				}
			}
		}
		parts = append(parts, p)
	}
	return parts
}

func streamC21(h *H) {
	repo, _ := vNewRepo()
	nSnap := h.N(20, 320)
	perSnap := 12
	if h.Thorough() {
		perSnap = 40
	}
	for si := 0; si < nSnap; si++ {
		if si%40 == 39 {
			repo, _ = vNewRepo()
		}
		// ---- snapshot: 1..4 files in the root, some in a sub directory
		nf := 1 + h.Intn(4)
		var files []*c21File
		var rootNodes, subNodes []*vNode
		for i := 0; i < nf; i++ {
			f := &c21File{parts: c21GenParts(h)}
			var sum uint64
			for _, p := range f.parts {
				sum += uint64(len(p))
			}
			f.size = sum
			n := &vNode{Type: data.NodeTypeFile, Parts: f.parts}
			if h.Intn(10) == 0 { // inconsistent node: recorded size differs from the blobs
				sz := sum + uint64(1+h.Intn(3))
				if h.Bool() && sum > 0 {
					sz = sum - uint64(1+h.Intn(int(min(sum, 3))))
				}
				f.size = sz
				n.Size = &sz
			}
			f.node = n
			if h.Intn(3) == 0 {
				n.Name = "g" + Itoa(i)
				f.name = filepath.Join("sub", n.Name)
				subNodes = append(subNodes, n)
			} else {
				n.Name = "f" + Itoa(i)
				f.name = n.Name
				rootNodes = append(rootNodes, n)
			}
			files = append(files, f)
		}
		if len(subNodes) > 0 {
			rootNodes = append(rootNodes, &vNode{Name: "sub", Type: data.NodeTypeDir, Children: subNodes})
		}
		sn, _ := vSaveSnapshot(repo, rootNodes)

		// ---- restore into a fresh directory; some files pre-exist with identical content
		// (they are then only tracked as "metadata only" and VerifyFiles skips them)
		dst := MkTemp("c21-")
		linkDir := MkTemp("c21l-")
		pre := map[int]bool{}
		for i, f := range files {
			if h.Intn(5) == 0 && f.size == uint64(len(f.content())) {
				p := filepath.Join(dst, f.name)
				_ = os.MkdirAll(filepath.Dir(p), 0700)
				_ = os.WriteFile(p, f.content(), 0600)
				_ = os.Chtimes(p, vBaseTime, vBaseTime)
				pre[i] = true
			}
		}
		ow := restorer.OverwriteAlways
		if h.Intn(3) == 0 {
			ow = restorer.OverwriteIfChanged
		}
		res := restorer.NewRestorer(repo, sn, restorer.Options{Overwrite: ow})
		var mu sync.Mutex
		var restoreErrs []string
		res.Error = func(loc string, err error) error {
			mu.Lock()
			restoreErrs = append(restoreErrs, loc+": "+err.Error())
			mu.Unlock()
			return nil
		}
		var count uint64
		var rerr error
		fin := vWithTimeout(60*time.Second, func(ctx context.Context) { count, rerr = res.RestoreTo(ctx, dst) })
		if !fin || rerr != nil || len(restoreErrs) > 0 {
			h.Case("restore-failed")
			h.Rec("why", B(fin), HexS(strings.Join(restoreErrs, ";")))
			h.End()
			_ = os.RemoveAll(dst)
			continue
		}
		fileList := restorer.VerifC21FileList(res)

		// ---- tamper / verify / undo
		for ti := 0; ti < perSnap; ti++ {
			type undo func()
			var undos []undo
			var labels []string
			nt := 1
			if ti == 0 {
				nt = 0 // control: untouched
			} else if h.Intn(6) == 0 {
				nt = 2
			}
			for k := 0; k < nt; k++ {
				fi := h.Intn(len(files))
				f := files[fi]
				p := filepath.Join(dst, f.name)
				orig, err := os.ReadFile(p)
				if err != nil {
					continue
				}
				st, _ := os.Lstat(p)
				restoreOrig := func() {
					_ = os.RemoveAll(p)
					_ = os.WriteFile(p, orig, st.Mode().Perm())
					_ = os.Chtimes(p, st.ModTime(), st.ModTime())
				}
				write := func(b []byte) { _ = os.WriteFile(p, b, 0600) }
				cur := append([]byte(nil), orig...)
				switch op := h.Intn(10); {
				case op <= 3 && len(cur) > 0: // flip one byte: first/last byte of a blob or anywhere
					var pos int
					if h.Bool() && len(f.parts) > 0 {
						bi := h.Intn(len(f.parts))
						off := 0
						for _, q := range f.parts[:bi] {
							off += len(q)
						}
						if h.Bool() && len(f.parts[bi]) > 0 {
							off += len(f.parts[bi]) - 1
						}
						pos = off
					} else {
						pos = h.Intn(len(cur))
					}
					if pos >= len(cur) {
						pos = len(cur) - 1
					}
					cur[pos] ^= byte(1 + h.Intn(255))
					write(cur)
					labels = append(labels, "flip")
					// a same-size change is the hardest to notice: also keep the restored mtime
					// (nothing but hashing can tell) and/or give the file a second hard link
					if h.Intn(3) == 0 {
						_ = os.Chtimes(p, st.ModTime(), st.ModTime())
						labels = append(labels, "mtime-kept")
					}
					if h.Intn(4) == 0 {
						hl := filepath.Join(linkDir, Itoa(ti)+"-"+Itoa(k))
						if os.Link(p, hl) == nil {
							undos = append(undos, func() { _ = os.Remove(hl) })
							labels = append(labels, "hardlinked")
						}
					}
				case op == 4 && len(cur) > 0:
					write(cur[:len(cur)-1-h.Intn(min(len(cur), 3))])
					labels = append(labels, "truncate")
				case op == 5:
					ext := h.Bytes(1 + h.Intn(3))
					if h.Bool() {
						for i := range ext {
							ext[i] = 0
						}
					}
					write(append(cur, ext...))
					labels = append(labels, "extend")
				case op == 6:
					_ = os.Remove(p)
					labels = append(labels, "delete")
				case op == 7:
					_ = os.Remove(p)
					_ = os.Mkdir(p, 0700)
					labels = append(labels, "todir")
				case op == 8:
					// a symlink to a file with the right content must NOT be accepted
					side := p + ".side"
					_ = os.WriteFile(side, orig, 0600)
					_ = os.Remove(p)
					_ = os.Symlink(filepath.Base(side), p)
					undos = append(undos, func() { _ = os.Remove(side) })
					labels = append(labels, "tosymlink")
				default:
					if len(cur) > 0 { // same length, swap two different bytes / rewrite identical
						write(cur)
					}
					labels = append(labels, "rewrite-same")
				}
				undos = append(undos, restoreOrig)
			}

			// verify with the command line's error policy: record, count, continue
			type verr struct{ loc, class string }
			var verrs []verr
			res.Error = func(loc string, err error) error {
				mu.Lock()
				verrs = append(verrs, verr{loc, c21VerifyClass(err)})
				mu.Unlock()
				return nil
			}
			var nver int
			var verr2 error
			fin := vWithTimeout(60*time.Second, func(ctx context.Context) {
				nver, verr2 = res.VerifyFiles(ctx, dst, count, restic.NoopCounter)
			})

			h.Case("verify")
			h.Rec("lbl", strings.Join(labels, "+"))
			for i, f := range files {
				toks := []string{Itoa(i), U64(f.size)}
				for _, p := range f.parts {
					toks = append(toks, RLE(p))
				}
				h.Rec("node", toks...)
				p := filepath.Join(dst, f.name)
				st, err := os.Lstat(p)
				switch {
				case err != nil:
					h.Rec("cur", Itoa(i), "missing")
				case st.Mode().IsRegular():
					b, _ := os.ReadFile(p)
					h.Rec("cur", Itoa(i), "reg", RLE(b))
				case st.IsDir():
					h.Rec("cur", Itoa(i), "dir")
				case st.Mode()&os.ModeSymlink != 0:
					h.Rec("cur", Itoa(i), "symlink")
				default:
					h.Rec("cur", Itoa(i), "special")
				}
				mo, tracked := fileList[string(filepath.Separator)+f.name]
				h.Rec("trk", Itoa(i), B(tracked), B(mo), B(pre[i]))
				class := "ok"
				for _, e := range verrs {
					if e.loc == p {
						class = "err:" + e.class
					}
				}
				h.Rec("res", Itoa(i), class)
			}
			if !fin {
				h.Rec("out", "hang")
			} else {
				h.Rec("out", B(verr2 == nil), Itoa(nver), Itoa(len(verrs)))
			}
			h.End()
			for i := len(undos) - 1; i >= 0; i-- {
				undos[i]()
			}
		}
		_ = os.RemoveAll(dst)
		_ = os.RemoveAll(linkDir)
	}
}
