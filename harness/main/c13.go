//go:build verif

package main

// C13: the real locker (refreshLocks + monitorLockRefresh goroutines, forced refresh under Freeze)
// with millisecond intervals on an in-memory backend behind a wrapper that follows a generated
// fault script: windows in which lock saves fail or are slow, removal of the lock file by somebody
// else, the time of Unlock. The wrapper records every lock-file operation, Freeze/Unfreeze and the
// moment the context is cancelled, with timestamps; all waits are bounded.

import (
	"context"
	"fmt"
	"io"
	"sort"
	"sync"
	"time"

	"github.com/restic/restic/internal/backend"
	"github.com/restic/restic/internal/backend/mem"
	"github.com/restic/restic/internal/repository"
)

var _ = verifRegister("C13", streamC13)

type c13Script struct {
	failFrom, failTo   time.Duration // lock saves started in this window fail
	slowFrom, slowTo   time.Duration // lock saves started in this window take `slow` longer
	slow               time.Duration
	rmFailFrom, rmFailTo time.Duration // lock removes in this window fail
	removeAt           time.Duration // somebody else removes all lock files (0 = never)
	unlockAt           time.Duration
}

type c13Backend struct {
	backend.Backend
	mu     sync.Mutex
	t0     time.Time
	armed  bool
	sc     c13Script
	lines  [][]string
	frozen bool
	ctx    context.Context // the context returned by Lock, once known
}

func (b *c13Backend) us() int64 { return time.Since(b.t0).Microseconds() }

func (b *c13Backend) rec(toks ...string) {
	b.mu.Lock()
	b.lines = append(b.lines, toks)
	b.mu.Unlock()
}

func in(t, from, to time.Duration) bool { return to > from && t >= from && t < to }

func (b *c13Backend) Save(ctx context.Context, h backend.Handle, rd backend.RewindReader) error {
	if h.Type != backend.LockFile || !b.armed {
		return b.Backend.Save(ctx, h, rd)
	}
	start := b.us()
	t := time.Duration(start) * time.Microsecond
	if in(t, b.sc.slowFrom, b.sc.slowTo) {
		time.Sleep(b.sc.slow)
	}
	var err error
	if in(t, b.sc.failFrom, b.sc.failTo) {
		err = fmt.Errorf("verif: injected save failure")
	} else {
		err = b.Backend.Save(ctx, h, rd)
	}
	b.rec("save", I64(start), I64(b.us()), B(err == nil), h.Name[:8])
	return err
}

func (b *c13Backend) Remove(ctx context.Context, h backend.Handle) error {
	if h.Type != backend.LockFile || !b.armed {
		return b.Backend.Remove(ctx, h)
	}
	start := b.us()
	var err error
	if in(time.Duration(start)*time.Microsecond, b.sc.rmFailFrom, b.sc.rmFailTo) {
		err = fmt.Errorf("verif: injected remove failure")
	} else {
		err = b.Backend.Remove(ctx, h)
	}
	b.rec("remove", I64(start), I64(b.us()), B(err == nil), h.Name[:8])
	return err
}

func (b *c13Backend) List(ctx context.Context, t backend.FileType, fn func(backend.FileInfo) error) error {
	if t != backend.LockFile || !b.armed {
		return b.Backend.List(ctx, t, fn)
	}
	var names []string
	err := b.Backend.List(ctx, t, func(fi backend.FileInfo) error {
		names = append(names, fi.Name[:8])
		return fn(fi)
	})
	sort.Strings(names)
	l := "-"
	if len(names) > 0 {
		l = names[0]
		for _, n := range names[1:] {
			l += "," + n
		}
	}
	b.rec("list", I64(b.us()), B(err == nil), l)
	return err
}

func (b *c13Backend) Load(ctx context.Context, h backend.Handle, length int, offset int64, fn func(rd io.Reader) error) error {
	return b.Backend.Load(ctx, h, length, offset, fn)
}

// Freeze / Unfreeze make the wrapper a backend.FreezeBackend: tryRefreshStaleLock calls them.
func (b *c13Backend) Freeze() {
	b.mu.Lock()
	b.frozen = true
	b.mu.Unlock()
	b.rec("freeze", I64(b.us()))
}

func (b *c13Backend) Unfreeze() {
	b.mu.Lock()
	b.frozen = false
	c := b.ctx
	b.mu.Unlock()
	cancelled := c != nil && c.Err() != nil
	b.rec("unfreeze", I64(b.us()), B(cancelled))
}

type c13Result struct {
	lines [][]string
}

func c13RunCase(sc c13Script, refreshInterval, refreshability time.Duration) [][]string {
	base := mem.New()
	repository.TestRepositoryWithBackend(TB, base, 0, repository.Options{})
	be := &c13Backend{Backend: base, sc: sc}
	repo := repository.TestOpenBackend(TB, be)
	be.t0 = time.Now()
	be.armed = true
	var logs []string
	var logMu sync.Mutex
	unlock, wctx, err := repository.VerifC13Lock(context.Background(), repo, false, refreshInterval, refreshability, func(format string, args ...any) {
		logMu.Lock()
		logs = append(logs, fmt.Sprintf(format, args...))
		logMu.Unlock()
	})
	if err != nil {
		be.rec("lockerr", HexS(err.Error()))
		return be.lines
	}
	be.mu.Lock()
	be.ctx = wctx
	be.mu.Unlock()
	be.rec("acq", I64(be.us()))
	watchDone := make(chan struct{})
	go func() {
		defer close(watchDone)
		select {
		case <-wctx.Done():
			be.rec("cancel", I64(be.us()))
		case <-time.After(sc.unlockAt + 10*time.Second):
			be.rec("cancel-timeout")
		}
	}()
	if sc.removeAt > 0 {
		go func() {
			time.Sleep(time.Until(be.t0.Add(sc.removeAt)))
			var names []string
			_ = base.List(context.Background(), backend.LockFile, func(fi backend.FileInfo) error {
				names = append(names, fi.Name)
				return nil
			})
			for _, n := range names {
				_ = base.Remove(context.Background(), backend.Handle{Type: backend.LockFile, Name: n})
				be.rec("removed-by-other", I64(be.us()), n[:8])
			}
		}()
	}
	time.Sleep(time.Until(be.t0.Add(sc.unlockAt)))
	be.rec("unlock-call", I64(be.us()), B(wctx.Err() != nil))
	done := make(chan struct{})
	go func() { unlock(); close(done) }()
	select {
	case <-done:
		be.rec("unlock-ret", I64(be.us()), B(wctx.Err() != nil))
	case <-time.After(15 * time.Second):
		be.rec("unlock-hang")
	}
	<-watchDone
	n := 0
	_ = base.List(context.Background(), backend.LockFile, func(backend.FileInfo) error { n++; return nil })
	be.rec("files-left", Itoa(n))
	logMu.Lock()
	for _, l := range logs {
		be.rec("log", HexS(l))
	}
	logMu.Unlock()
	be.mu.Lock()
	defer be.mu.Unlock()
	return be.lines
}

func streamC13(h *H) {
	const ms = time.Millisecond
	ncases := h.N(64, 3000)
	par := 4
	type job struct {
		sc     c13Script
		kind   string
		ri, rt time.Duration
		out    [][]string
	}
	for done := 0; done < ncases; done += par {
		var jobs []*job
		for k := 0; k < par && done+k < ncases; k++ {
			ri := time.Duration(30+10*h.Intn(3)) * ms // refresh interval 30..50 ms
			rt := ri * 5                                // refreshability timeout 150..250 ms
			j := &job{ri: ri, rt: rt}
			sc := c13Script{}
			rnd := func(lo, hi time.Duration) time.Duration { return lo + time.Duration(h.Intn(int((hi-lo)/ms)+1))*ms }
			switch h.Intn(7) {
			case 0:
				j.kind = "healthy"
			case 1:
				j.kind = "outage-permanent"
				sc.failFrom = rnd(0, 2*rt)
				sc.failTo = time.Hour
			case 2:
				j.kind = "outage-temporary"
				sc.failFrom = rnd(0, rt)
				sc.failTo = sc.failFrom + rnd(ri, 2*rt)
			case 3:
				j.kind = "slow-saves"
				sc.slowFrom = rnd(0, rt)
				sc.slowTo = sc.slowFrom + rnd(ri, 2*rt)
				sc.slow = rnd(ri/2, rt+ri)
			case 4:
				j.kind = "outage-then-slow"
				sc.failFrom = rnd(0, ri)
				sc.failTo = sc.failFrom + rnd(2*ri, rt-ri)
				sc.slowFrom = sc.failTo
				sc.slowTo = sc.slowFrom + rnd(ri, rt)
				sc.slow = rnd(ri, rt)
			case 5:
				j.kind = "removed-and-outage"
				sc.removeAt = rnd(ri, rt)
				sc.failFrom = rnd(0, sc.removeAt)
				sc.failTo = time.Hour
			case 6:
				j.kind = "removed-only"
				sc.removeAt = rnd(ri, 2*rt)
				if h.Intn(2) == 0 {
					sc.rmFailFrom = rnd(0, rt)
					sc.rmFailTo = sc.rmFailFrom + rnd(ri, rt)
				}
			}
			// long enough for a holder that lost its lock to be cancelled, and for one that wrongly keeps
			// running to be seen with an over-age lock
			sc.unlockAt = 3*rt + 3*sc.slow + rnd(0, rt)
			if h.Intn(8) == 0 {
				sc.unlockAt = rnd(ri, rt) // early unlock
			}
			j.sc = sc
			jobs = append(jobs, j)
		}
		var wg sync.WaitGroup
		for _, j := range jobs {
			wg.Add(1)
			go func(j *job) {
				defer wg.Done()
				j.out = c13RunCase(j.sc, j.ri, j.rt)
			}(j)
		}
		wg.Wait()
		for _, j := range jobs {
			h.Case("script")
			d := func(x time.Duration) string { return I64(x.Microseconds()) }
			h.Rec("params", d(j.ri), d(j.rt), j.kind)
			failTo, slowTo, rmTo := j.sc.failTo, j.sc.slowTo, j.sc.rmFailTo
			if failTo > time.Minute {
				failTo = time.Minute
			}
			h.Rec("script", d(j.sc.failFrom), d(failTo), d(j.sc.slowFrom), d(slowTo), d(j.sc.slow), d(j.sc.rmFailFrom), d(rmTo), d(j.sc.removeAt), d(j.sc.unlockAt))
			for _, l := range j.out {
				h.Rec(l[0], l[1:]...)
			}
			h.End()
		}
	}
}
