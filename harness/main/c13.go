//go:build verif

package main

// C13: the real repository.LockRepo (newLock, then the refreshLocks + monitorLockRefresh goroutines,
// forced refresh under Freeze) with the REAL constants (5 min / 22.5 min / 30 min / 1 s poll) on an
// in-memory backend behind a wrapper that follows a generated fault script: windows in which lock
// saves fail or are slow, removal of the lock file by somebody else, the time of Unlock. Every case
// runs inside a testing/synctest bubble, i.e. in virtual time: timers fire exactly, an hour of lock
// keeping costs milliseconds, and scheduling noise of the machine cannot disturb the timing
// observations. The wrapper records every lock-file operation, Freeze/Unfreeze and the moment the
// context is cancelled, with (virtual) timestamps.

import (
	"context"
	"fmt"
	"io"
	"runtime"
	"sort"
	"sync"
	"testing"
	"testing/synctest"
	"time"

	"github.com/restic/restic/internal/backend"
	"github.com/restic/restic/internal/backend/mem"
	"github.com/restic/restic/internal/backend/sema"
	"github.com/restic/restic/internal/repository"
)

var _ = verifRegister("C13", streamC13)

type c13Script struct {
	failFrom, failTo   time.Duration // lock saves started in this window fail
	slowFrom, slowTo   time.Duration // lock saves started in this window take `slow` longer
	slow               time.Duration
	rmFailFrom, rmFailTo time.Duration // lock removes in this window fail
	removeAt           time.Duration // somebody else removes all lock files (0 = never)
	idempotentRemove   bool          // removing a file that does not exist is not an error (as on object stores)
	removeInWindow     bool          // somebody else removes the lock files right after the first existence check of a forced refresh
	writeOnFreeze      bool          // a repository write is issued (with the lock context) while the backend is frozen
	unlockAt           time.Duration
}

type c13Backend struct {
	backend.Backend
	mu     sync.Mutex
	t0     time.Time
	armed  bool
	sc     c13Script
	lines  [][]string
	frozen bool
	windowDone bool
	ctx    context.Context // the context returned by Lock, once known
}

func (b *c13Backend) us() int64 { return time.Since(b.t0).Microseconds() }

func (b *c13Backend) rec(toks ...string) {
	b.mu.Lock()
	b.lines = append(b.lines, toks)
	b.mu.Unlock()
}

func in(t, from, to time.Duration) bool { return to > from && t >= from && t < to }

func (b *c13Backend) Save(ctx context.Context, h backend.Handle, rd backend.RewindReader) error {
	if h.Type == backend.SnapshotFile && b.armed {
		// a repository modification reaches the storage (which, like mem/local/sftp, ignores ctx)
		b.mu.Lock()
		c := b.ctx
		b.mu.Unlock()
		b.rec("write", I64(b.us()), B(c != nil && c.Err() != nil), h.Name[:8])
		return b.Backend.Save(ctx, h, rd)
	}
	if h.Type != backend.LockFile || !b.armed {
		return b.Backend.Save(ctx, h, rd)
	}
	start := b.us()
	t := time.Duration(start) * time.Microsecond
	if in(t, b.sc.slowFrom, b.sc.slowTo) {
		time.Sleep(b.sc.slow)
	}
	var err error
	if in(t, b.sc.failFrom, b.sc.failTo) {
		err = fmt.Errorf("verif: injected save failure")
	} else {
		err = b.Backend.Save(ctx, h, rd)
	}
	b.rec("save", I64(start), I64(b.us()), B(err == nil), h.Name[:8])
	return err
}

func (b *c13Backend) Remove(ctx context.Context, h backend.Handle) error {
	if h.Type != backend.LockFile || !b.armed {
		return b.Backend.Remove(ctx, h)
	}
	start := b.us()
	var err error
	if in(time.Duration(start)*time.Microsecond, b.sc.rmFailFrom, b.sc.rmFailTo) {
		err = fmt.Errorf("verif: injected remove failure")
	} else {
		err = b.Backend.Remove(ctx, h)
		if err != nil && b.sc.idempotentRemove && b.Backend.IsNotExist(err) {
			err = nil
		}
	}
	b.rec("remove", I64(start), I64(b.us()), B(err == nil), h.Name[:8])
	return err
}

func (b *c13Backend) List(ctx context.Context, t backend.FileType, fn func(backend.FileInfo) error) error {
	if t != backend.LockFile || !b.armed {
		return b.Backend.List(ctx, t, fn)
	}
	var names []string
	err := b.Backend.List(ctx, t, func(fi backend.FileInfo) error {
		names = append(names, fi.Name[:8])
		return fn(fi)
	})
	// another client's `unlock` lands between the first existence check of the forced refresh and the
	// upload of the replacement lock
	b.mu.Lock()
	hit := b.frozen && b.sc.removeInWindow && !b.windowDone
	if hit {
		b.windowDone = true
	}
	b.mu.Unlock()
	sort.Strings(names)
	l := "-"
	if len(names) > 0 {
		l = names[0]
		for _, n := range names[1:] {
			l += "," + n
		}
	}
	b.rec("list", I64(b.us()), B(err == nil), l)
	if hit {
		var full []string
		_ = b.Backend.List(ctx, t, func(fi backend.FileInfo) error { full = append(full, fi.Name); return nil })
		sort.Strings(full)
		for _, n := range full {
			_ = b.Backend.Remove(ctx, backend.Handle{Type: backend.LockFile, Name: n})
			b.rec("removed-by-other", I64(b.us()), n[:8])
		}
	}
	return err
}

func (b *c13Backend) Load(ctx context.Context, h backend.Handle, length int, offset int64, fn func(rd io.Reader) error) error {
	return b.Backend.Load(ctx, h, length, offset, fn)
}

// c13Top is what the repository sees: the real sema wrapper (connection limit + freeze gate, as in
// a real restic) over the recording/fault-injecting backend. Its Freeze/Unfreeze record the calls of
// tryRefreshStaleLock and delegate to the sema wrapper.
type c13Top struct {
	backend.Backend // the sema wrapper
	fb      backend.FreezeBackend
	rec     *c13Backend
	writers sync.WaitGroup
	nwrite  int
}

func (t *c13Top) Freeze() {
	t.fb.Freeze()
	b := t.rec
	b.mu.Lock()
	b.frozen = true
	c := b.ctx
	b.mu.Unlock()
	b.rec("freeze", I64(b.us()))
	if b.sc.writeOnFreeze && c != nil && c.Err() == nil {
		// a worker of the running command uploads a snapshot with the (still valid) lock context right
		// now: it has to park at the freeze gate
		t.nwrite++
		name := fmt.Sprintf("%064x", t.nwrite)
		var entered int32
		var mu sync.Mutex
		t.writers.Add(1)
		go func() {
			defer t.writers.Done()
			mu.Lock()
			entered = 1
			mu.Unlock()
			err := t.Backend.Save(c, backend.Handle{Type: backend.SnapshotFile, Name: name}, backend.NewByteReader([]byte("snapshot"), b.Backend.Hasher()))
			class := "nil"
			if err != nil {
				class = "err"
				if c.Err() != nil {
					class = "ctx"
				}
			}
			b.rec("write-ret", I64(b.us()), class, name[56:])
		}()
		// let the writer get into the wrapper (and to the gate) before the forced refresh goes on
		for i := 0; i < 100000; i++ {
			runtime.Gosched()
			mu.Lock()
			e := entered
			mu.Unlock()
			if e == 1 {
				break
			}
		}
		for i := 0; i < 300; i++ {
			runtime.Gosched()
		}
	}
}

func (t *c13Top) Unfreeze() {
	b := t.rec
	b.mu.Lock()
	b.frozen = false
	c := b.ctx
	b.mu.Unlock()
	cancelled := c != nil && c.Err() != nil
	b.rec("unfreeze", I64(b.us()), B(cancelled))
	t.fb.Unfreeze()
}

func (t *c13Top) Unwrap() backend.Backend { return t.Backend }

// A *testing.T (needed by testing/synctest) is obtained through testing.Main, which works in a
// non-test binary: the whole stream runs as one "test"; testing.Main exits the process afterwards,
// so the stream flushes its output itself.
func streamC13(h *H) {
	testing.Main(func(pat, str string) (bool, error) { return true, nil },
		[]testing.InternalTest{{Name: "c13", F: func(t *testing.T) {
			c13Stream(h, t)
			h.End()
			h.W.Flush()
		}}}, nil, nil)
}

// c13InBubble runs f inside a testing/synctest bubble (virtual clock).
func c13InBubble(t *testing.T, name string, f func()) bool {
	return t.Run(name, func(t *testing.T) {
		synctest.Test(t, func(t *testing.T) { f() })
	})
}

// c13RunCase runs one scripted holder. ri == 0: the real repository.LockRepo with the constants of the
// source; otherwise a locker with the given intervals (shim, as the repository's tests do).
func c13RunCase(base backend.Backend, sc c13Script, ri, rt time.Duration) [][]string {
	be := &c13Backend{Backend: base, sc: sc}
	sb := sema.NewBackend(be)
	top := &c13Top{Backend: sb, fb: backend.AsBackend[backend.FreezeBackend](sb), rec: be}
	repo := repository.TestOpenBackend(TB, top)
	be.t0 = time.Now()
	var logs []string
	var logMu sync.Mutex
	logger := func(format string, args ...any) {
		logMu.Lock()
		logs = append(logs, fmt.Sprintf(format, args...))
		logMu.Unlock()
	}
	var unlock func()
	var wctx context.Context
	var err error
	if ri == 0 {
		unlock, wctx, err = repository.LockRepo(context.Background(), repo, false, 0, func(string) {}, logger)
	} else {
		unlock, wctx, err = repository.VerifC13Lock(context.Background(), repo, false, ri, rt, logger)
	}
	if err != nil {
		be.rec("lockerr", HexS(err.Error()))
		return be.lines
	}
	// script times count from the moment the lock is held
	be.mu.Lock()
	be.ctx = wctx
	be.t0 = time.Now()
	be.armed = true
	be.mu.Unlock()
	// the lock file written by newLock (its Time is "now": acquisition takes no virtual time)
	_ = base.List(context.Background(), backend.LockFile, func(fi backend.FileInfo) error {
		be.rec("save", "0", "0", "1", fi.Name[:8])
		return nil
	})
	be.rec("acq", I64(be.us()))
	stop := make(chan struct{})
	var wg sync.WaitGroup
	wg.Add(1)
	go func() {
		defer wg.Done()
		select {
		case <-wctx.Done():
			be.rec("cancel", I64(be.us()))
		case <-stop:
		}
	}()
	if sc.removeAt > 0 {
		wg.Add(1)
		go func() {
			defer wg.Done()
			select {
			case <-time.After(sc.removeAt):
			case <-stop:
				return
			}
			var names []string
			_ = base.List(context.Background(), backend.LockFile, func(fi backend.FileInfo) error {
				names = append(names, fi.Name)
				return nil
			})
			sort.Strings(names)
			for _, n := range names {
				_ = base.Remove(context.Background(), backend.Handle{Type: backend.LockFile, Name: n})
				be.rec("removed-by-other", I64(be.us()), n[:8])
			}
		}()
	}
	time.Sleep(sc.unlockAt)
	be.rec("unlock-call", I64(be.us()), B(wctx.Err() != nil))
	unlock()
	be.rec("unlock-ret", I64(be.us()), B(wctx.Err() != nil))
	close(stop)
	wg.Wait()
	top.writers.Wait()
	n := 0
	_ = base.List(context.Background(), backend.LockFile, func(backend.FileInfo) error { n++; return nil })
	be.rec("files-left", Itoa(n))
	logMu.Lock()
	for _, l := range logs {
		be.rec("log", HexS(l))
	}
	logMu.Unlock()
	be.mu.Lock()
	defer be.mu.Unlock()
	return be.lines
}

func c13Stream(h *H, t *testing.T) {
	ncases := h.N(120, 6000)
	for ci := 0; ci < ncases; ci++ {
		var ri, rt time.Duration // 0 = the real LockRepo
		unit := time.Second
		switch h.Intn(10) {
		case 0:
			ri, unit = 40*time.Millisecond, time.Millisecond
		case 1:
			ri, unit = 2*time.Second, 10*time.Millisecond
		case 2:
			ri, unit = time.Minute, time.Second
		}
		eri, ert := ri, ri*5
		rt = ert
		if ri == 0 {
			// the intervals the real LockRepo uses, read from the compiled source
			f := repository.VerifFacts()
			eri, ert = time.Duration(f["lock_refreshInterval_ns"]), time.Duration(f["lock_refreshabilityTimeout_ns"])
		}
		sc := c13Script{}
		rnd := func(lo, hi time.Duration) time.Duration {
			if hi <= lo {
				return lo
			}
			return lo + time.Duration(h.Intn(int((hi-lo)/unit)+1))*unit
		}
		kind := ""
		switch h.Intn(12) {
		case 0:
			kind = "healthy"
		case 1:
			kind = "outage-permanent"
			sc.failFrom = rnd(0, 2*ert)
			sc.failTo = 1000 * time.Hour
		case 2:
			kind = "outage-temporary"
			sc.failFrom = rnd(0, ert)
			sc.failTo = sc.failFrom + rnd(eri, 2*ert)
		case 3:
			kind = "slow-saves"
			sc.slowFrom = rnd(0, ert)
			sc.slowTo = sc.slowFrom + rnd(eri, 2*ert)
			sc.slow = rnd(eri/10, eri+eri/2)
		case 4:
			kind = "outage-then-slow"
			sc.failFrom = rnd(0, eri)
			sc.failTo = sc.failFrom + rnd(2*eri, ert-eri)
			sc.slowFrom = sc.failTo
			sc.slowTo = sc.slowFrom + rnd(eri, ert)
			sc.slow = rnd(eri/10, eri+eri/2)
		case 5:
			kind = "removed-and-outage"
			sc.removeAt = rnd(eri, ert)
			sc.failFrom = rnd(0, sc.removeAt)
			sc.failTo = 1000 * time.Hour
		case 6:
			kind = "removed-only"
			sc.removeAt = rnd(eri, 2*ert)
			if h.Intn(2) == 0 {
				sc.rmFailFrom = rnd(0, ert)
				sc.rmFailTo = sc.rmFailFrom + rnd(eri, ert)
			}
		case 8:
			// replacement written and adopted, old file not removed: refreshLocks gets an error and the
			// monitor is never told - it has to force a refresh of a lock that is in fact fresh
			kind = "removes-fail"
			sc.rmFailFrom = rnd(0, eri)
			sc.rmFailTo = sc.rmFailFrom + rnd(ert, 2*ert)
		case 9, 10, 11:
			// an outage that swallows every regular refresh of one refreshability period and ends just
			// before the monitor forces a refresh: the forced refresh runs on a working backend, with the
			// lock file still there (must succeed) or removed by somebody else meanwhile (must cancel)
			kind = "outage-ends-before-forced-refresh"
			k := time.Duration(h.Intn(3))
			nticks := (ert / eri) // regular ticks inside one period
			sc.failFrom = k*eri + rnd(unit, eri-unit)
			sc.failTo = (k+nticks)*eri + rnd(unit, ert-nticks*eri-unit)
			switch h.Intn(3) {
			case 0:
				kind = "removed-outage-ends-before-forced-refresh"
				sc.removeAt = rnd(sc.failFrom, sc.failTo)
			case 1:
				kind = "removed-inside-forced-refresh-window"
				sc.removeInWindow = true
			}
		case 7:
			kind = "short-outages-and-slow"
			sc.failFrom = rnd(0, ert)
			sc.failTo = sc.failFrom + rnd(eri, 3*eri)
			sc.slowFrom = rnd(0, 2*ert)
			sc.slowTo = sc.slowFrom + rnd(eri, 2*ert)
			sc.slow = rnd(eri/10, eri)
		}
		// long enough for a holder that lost its lock to be cancelled, and for one that wrongly keeps
		// running to be seen with an over-age lock
		sc.unlockAt = 3*ert + 3*sc.slow + rnd(0, ert)
		if h.Intn(8) == 0 {
			sc.unlockAt = rnd(eri/2, ert) // early unlock
		}
		sc.idempotentRemove = h.Intn(2) == 0 || (sc.removeInWindow && h.Intn(4) != 0)
		// (not together with slow saves: a goroutine parked on the gate's mutex is not "durably blocked"
		// for synctest, so virtual time could not advance during the forced refresh)
		sc.writeOnFreeze = sc.slow == 0 && h.Intn(3) != 0
		base := mem.New()
		repository.TestRepositoryWithBackend(TB, base, 0, repository.Options{})
		var out [][]string
		okRun := false
		panicked, msg := Protect(func() {
			okRun = c13InBubble(t, Itoa(ci), func() { out = c13RunCase(base, sc, ri, rt) })
		})
		h.Case("script")
		d := func(x time.Duration) string { return I64(x.Microseconds()) }
		h.Rec("params", d(eri), d(ert), kind, B(ri == 0), B(sc.idempotentRemove), B(sc.writeOnFreeze))
		failTo := sc.failTo
		if failTo > 100*time.Hour {
			failTo = 100 * time.Hour
		}
		h.Rec("script", d(sc.failFrom), d(failTo), d(sc.slowFrom), d(sc.slowTo), d(sc.slow), d(sc.rmFailFrom), d(sc.rmFailTo), d(sc.removeAt), d(sc.unlockAt))
		for _, l := range out {
			h.Rec(l[0], l[1:]...)
		}
		if panicked {
			h.Rec("bubble", "panic", HexS(msg))
		} else if !okRun {
			h.Rec("bubble", "failed")
		}
		h.End()
	}
}
