//go:build verif

package main

import (
	"strings"

	"github.com/restic/restic/internal/backend/mem"
)

var _ = verifRegister("C27", streamC27)

// streamC27: real `restic rewrite` with pattern flags on small generated snapshots; the listing
// of the new snapshot, its summary and the unchanged-snapshot detection are recorded.
func streamC27(h *H) {
	ntrees := h.N(40, 240)
	perTree := 5
	for t := 0; t < ntrees; t++ {
		tree := a5GenTree(h, 0, 5)
		if len(tree) == 0 {
			continue
		}
		cli := NewCLI(mem.New())
		snap := a5Backup(cli, tree)
		orig := a5Ls(cli, snap)
		var paths []string
		a5Paths("", tree, &paths)
		osn := a5Snapshots(cli)[0]
		for k := 0; k < perTree; k++ {
			include := h.Intn(2) == 0
			fl := a5GenFlags(h, paths, include)
			if h.Intn(25) == 0 { // both kinds: must be refused
				other := a5GenFlags(h, paths, !include)
				fl.Ex, fl.IEx = append(fl.Ex, other.Ex...), append(fl.IEx, other.IEx...)
				fl.In, fl.IIn = append(fl.In, other.In...), append(fl.IIn, other.IIn...)
			}
			h.Case("rewrite")
			for _, e := range orig {
				h.Rec("node", HexS(e.Path), e.Type, U64(e.Size))
			}
			fl.Rec(h)
			var comps []string
			for _, e := range orig {
				for _, c := range strings.Split(e.Path, "/") {
					comps = append(comps, c, strings.ToLower(c))
				}
			}
			a5Oracle(h, fl.Raw(), comps)
			if osn.Summary != nil {
				h.Rec("osummary", U64(osn.Summary.Files), U64(osn.Summary.Bytes))
			}
			before := a5Snapshots(cli)
			args := append([]string{"rewrite"}, fl.Args("")...)
			args = append(args, snap)
			r := cli.Run(args...)
			switch {
			case r.Panic != "":
				h.Rec("res", "panic")
			case r.Err != nil:
				h.Rec("res", "fatal", HexS(r.Err.Error()))
			default:
				after := a5Snapshots(cli)
				known := map[string]bool{}
				for _, s := range before {
					known[s.ID] = true
				}
				var nsn *a5Snap
				for i := range after {
					if !known[after[i].ID] {
						nsn = &after[i]
					}
				}
				if nsn == nil {
					h.Rec("res", "unchanged", B(len(after) == len(before)))
				} else {
					h.Rec("res", "changed", B(nsn.Original == snap), B(len(after) == len(before)+1))
					for _, e := range a5Ls(cli, nsn.ID) {
						h.Rec("new", HexS(e.Path), e.Type, U64(e.Size))
					}
					if nsn.Summary != nil {
						h.Rec("summary", U64(nsn.Summary.Files), U64(nsn.Summary.Bytes))
					}
					// keep the repository small: drop the rewritten snapshot again
					cli.Run("forget", nsn.ID)
				}
			}
			h.End()
		}
	}
}
