//go:build verif && !(darwin || freebsd || linux)

package main

func c14FuseScenario(h *H, root string, si int) {}
