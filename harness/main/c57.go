//go:build verif

package main

import (
	"context"
	"errors"
	"sort"
	"strings"

	"github.com/restic/restic/internal/backend"
	"github.com/restic/restic/internal/backend/mem"
	"github.com/restic/restic/internal/repository"
	"github.com/restic/restic/internal/restic"
)

// C57: restic.Find (ID prefix resolution).
//
// Sub-streams:
//   fake  restic.Find over a scripted restic.Lister (listing order under control, optional
//         lister error after the last entry, duplicates possible)
//   repo  restic.Find over a real repository.Repository on a mem backend whose files carry the
//         generated names (real repo.List: name parsing, map iteration order)
//   cli   `restic cat snapshot <prefix>` through the real root command on such a repository
//
// Records:
//   ids <hex id>*        IDs in listing order (fake) / sorted (repo, cli: the order is not observable)
//   prefix <hex bytes>   the prefix string
//   listerr 0|1
//   res ok <hex id> | noid <hex returned id> | multiple <hex returned id> | listerr <hex returned id>
//       | other <hex msg> | panic <hex msg>
//   (cli) res found <hex of the first 10 characters of the name> | noid | multiple | other <hex msg>
var _ = verifRegister("C57", streamC57)

type c57Lister struct {
	ids  []restic.ID
	fail bool
}

var errC57List = errors.New("c57: scripted lister failure")

func (l *c57Lister) List(ctx context.Context, _ restic.FileType, fn func(restic.ID, int64) error) error {
	for _, id := range l.ids {
		if ctx.Err() != nil {
			return ctx.Err()
		}
		if err := fn(id, 1); err != nil {
			return err
		}
	}
	if l.fail {
		return errC57List
	}
	return nil
}

// c57GenIDs builds an ID set with shared prefixes; the null ID and near-null IDs are included
// with noticeable probability.
func c57GenIDs(h *H) []restic.ID {
	n := h.Intn(7)
	if h.Intn(8) == 0 {
		n += h.Intn(12)
	}
	var ids []restic.ID
	randID := func() restic.ID {
		var id restic.ID
		copy(id[:], h.Bytes(32))
		return id
	}
	lowEntropy := h.Intn(3) == 0 // IDs made of few distinct nibbles: many shared prefixes
	for i := 0; i < n; i++ {
		var id restic.ID
		switch k := h.Intn(10); {
		case k == 0:
			// the all-zero ID
		case k == 1:
			// almost null: one non-zero nibble somewhere
			pos := h.Intn(64)
			v := byte(1 + h.Intn(15))
			if pos%2 == 0 {
				id[pos/2] = v << 4
			} else {
				id[pos/2] = v
			}
		case k <= 6 && len(ids) > 0:
			// share the first `share` nibbles with an earlier ID
			base := ids[h.Intn(len(ids))]
			id = randID()
			share := []int{0, 1, 2, 3, 4, 7, 8, 9, 16, 31, 32, 62, 63}[h.Intn(13)]
			for j := 0; j < share; j++ {
				if j%2 == 0 {
					id[j/2] = (id[j/2] & 0x0f) | (base[j/2] & 0xf0)
				} else {
					id[j/2] = (id[j/2] & 0xf0) | (base[j/2] & 0x0f)
				}
			}
		default:
			id = randID()
			if lowEntropy {
				for j := range id {
					id[j] = []byte{0x00, 0x0a, 0xa0, 0xaa}[h.Intn(4)]
				}
			}
		}
		ids = append(ids, id)
	}
	return ids
}

func c57GenPrefix(h *H, ids []restic.ID, cli bool) string {
	lens := []int{0, 0, 1, 1, 2, 2, 3, 4, 5, 7, 8, 9, 16, 32, 63, 64}
	var base string
	if len(ids) > 0 && h.Intn(8) != 0 {
		base = ids[h.Intn(len(ids))].String()
	} else {
		var id restic.ID
		copy(id[:], h.Bytes(32))
		base = id.String()
	}
	p := base[:lens[h.Intn(len(lens))]]
	switch h.Intn(12) {
	case 0: // change the last character
		if len(p) > 0 {
			b := []byte(p)
			b[len(b)-1] = "0123456789abcdef"[h.Intn(16)]
			p = string(b)
		}
	case 1: // upper case
		p = strings.ToUpper(p)
	case 2: // longer than any name
		p = base + string("0a"[h.Intn(2)])
	case 3: // non-hex / non-UTF-8 bytes
		junk := []string{"g", "\xff", "\x00", " ", "é", "0x", "%", "/"}
		if cli {
			junk = []string{"g", "x0", "%", "é", "z"}
		}
		p = p + h.Pick(junk)
	case 4:
		p = "0"
	case 5:
		p = "00"
	}
	return p
}

func c57Dedup(ids []restic.ID) []restic.ID {
	seen := map[restic.ID]bool{}
	var out []restic.ID
	for _, id := range ids {
		if !seen[id] {
			seen[id] = true
			out = append(out, id)
		}
	}
	return out
}

func c57Sorted(ids []restic.ID) []string {
	var l []string
	for _, id := range ids {
		l = append(l, id.String())
	}
	sort.Strings(l)
	return l
}

func c57Res(h *H, id restic.ID, err error) {
	var multi *restic.MultipleIDMatchesError
	var noid *restic.NoIDByPrefixError
	switch {
	case err == nil:
		h.Rec("res", "ok", id.String())
	case errors.As(err, &multi):
		h.Rec("res", "multiple", id.String())
	case errors.As(err, &noid):
		h.Rec("res", "noid", id.String())
	case errors.Is(err, errC57List):
		h.Rec("res", "listerr", id.String())
	default:
		h.Rec("res", "other", HexS(err.Error()))
	}
}

func c57FillBackend(be backend.Backend, t backend.FileType, ids []restic.ID, junkName bool) {
	for _, id := range ids {
		err := be.Save(context.Background(), backend.Handle{Type: t, Name: id.String()},
			backend.NewByteReader([]byte("c57"), be.Hasher()))
		if err != nil {
			panic(err)
		}
	}
	if junkName {
		// a file whose name is not an ID: skipped by repo.List
		_ = be.Save(context.Background(), backend.Handle{Type: t, Name: "00tmp-not-an-id"},
			backend.NewByteReader([]byte("c57"), be.Hasher()))
	}
}

func streamC57(h *H) {
	ctx := context.Background()
	// --- fake lister: volume
	n := h.N(3000, 60000)
	for i := 0; i < n; i++ {
		ids := c57GenIDs(h)
		if h.Intn(20) != 0 {
			ids = c57Dedup(ids)
		}
		h.Rng.Shuffle(len(ids), func(a, b int) { ids[a], ids[b] = ids[b], ids[a] })
		p := c57GenPrefix(h, ids, false)
		fail := h.Intn(12) == 0
		h.Case("fake")
		var toks []string
		for _, id := range ids {
			toks = append(toks, id.String())
		}
		h.Rec("ids", toks...)
		h.Rec("prefix", HexS(p))
		h.Rec("listerr", B(fail))
		var id restic.ID
		var err error
		panicked, msg := Protect(func() {
			id, err = restic.Find(ctx, &c57Lister{ids: ids, fail: fail}, restic.SnapshotFile, p)
		})
		if panicked {
			h.Rec("res", "panic", HexS(msg))
		} else {
			c57Res(h, id, err)
		}
		h.End()
	}

	// --- real repository lister on a mem backend
	n = h.N(400, 8000)
	types := []restic.FileType{restic.SnapshotFile, restic.KeyFile, restic.PackFile, restic.IndexFile, restic.LockFile}
	for i := 0; i < n; i++ {
		ids := c57Dedup(c57GenIDs(h))
		p := c57GenPrefix(h, ids, false)
		t := types[h.Intn(len(types))]
		be := mem.New()
		c57FillBackend(be, backend.FileType(t), ids, h.Intn(4) == 0)
		// files of another type must not matter
		if h.Intn(3) == 0 {
			other := types[(int(t)+1)%len(types)]
			if other != t {
				c57FillBackend(be, backend.FileType(other), c57Dedup(c57GenIDs(h)), false)
			}
		}
		repo, err := repository.New(be, repository.Options{})
		if err != nil {
			panic(err)
		}
		h.Case("repo")
		h.Rec("ids", c57Sorted(ids)...)
		h.Rec("prefix", HexS(p))
		h.Rec("listerr", B(false))
		var id restic.ID
		panicked, msg := Protect(func() {
			id, err = restic.Find(ctx, repo, t, p)
		})
		if panicked {
			h.Rec("res", "panic", HexS(msg))
		} else {
			c57Res(h, id, err)
		}
		h.End()
	}

	// --- CLI: restic cat snapshot <prefix>
	n = h.N(60, 600)
	be := mem.New()
	cli := NewCLI(be)
	cli.MustRun("init")
	for i := 0; i < n; i++ {
		// remove the snapshot files of the previous case
		_ = be.List(ctx, backend.SnapshotFile, func(fi backend.FileInfo) error {
			return be.Remove(ctx, backend.Handle{Type: backend.SnapshotFile, Name: fi.Name})
		})
		ids := c57Dedup(c57GenIDs(h))
		p := c57GenPrefix(h, ids, true)
		if strings.HasPrefix(p, "-") || strings.Contains(p, ":") || p == "latest" {
			continue
		}
		c57FillBackend(be, backend.SnapshotFile, ids, false)
		h.Case("cli")
		h.Rec("ids", c57Sorted(ids)...)
		h.Rec("prefix", HexS(p))
		h.Rec("listerr", B(false))
		res := cli.Run("cat", "snapshot", p)
		msg := ""
		if res.Err != nil {
			msg = res.Err.Error()
		}
		switch {
		case res.Panic != "":
			h.Rec("res", "panic", HexS(res.Panic))
		case strings.Contains(msg, "no matching ID found for prefix"):
			h.Rec("res", "noid")
		case strings.Contains(msg, "multiple IDs with prefix"):
			h.Rec("res", "multiple")
		case res.Err != nil:
			// Find succeeded; loading the (fake) snapshot file fails afterwards and names the
			// first 10 characters of the file name: LoadRaw(<snapshot/0123456789>)
			found := ""
			if i := strings.Index(msg, "<snapshot/"); i >= 0 {
				rest := msg[i+len("<snapshot/"):]
				if j := strings.Index(rest, ">"); j >= 0 {
					found = rest[:j]
				}
			}
			if found != "" && !strings.ContainsAny(found, " \n\t\r") {
				h.Rec("res", "found", HexS(found))
			} else {
				h.Rec("res", "other", HexS(msg))
			}
		default:
			h.Rec("res", "other", HexS("unexpected success: "+res.Stdout))
		}
		h.End()
	}
}
