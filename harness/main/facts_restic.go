//go:build verif

package main

import "github.com/restic/restic/internal/restic"

var _ = verifRegisterFacts(restic.VerifFactsC30)
