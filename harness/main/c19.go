//go:build verif

package main

import (
	"bytes"
	"context"
	"fmt"
	"os"
	"os/exec"
	"path/filepath"
	"strings"
	"time"

	"github.com/restic/restic/internal/backend"
	"github.com/restic/restic/internal/data"
	"github.com/restic/restic/internal/fileio"
	"github.com/restic/restic/internal/restic"
	"golang.org/x/sys/unix"
)

var _ = verifRegister("C19", streamC19)

const c19ZeroChunkLen = 512 * 1024
const c19Nobody = 65534

// vExportLocal writes the content of a backend as a repository directory in the default
// layout of the local backend, readable by everybody.
func vExportLocal(be backend.Backend, dir string) {
	for k, v := range DumpBackend(be) {
		i := strings.IndexByte(k, '/')
		typ, name := k[:i], k[i+1:]
		var p string
		switch typ {
		case "config":
			p = filepath.Join(dir, "config")
		case "data":
			p = filepath.Join(dir, "data", name[:2], name)
		case "snapshot":
			p = filepath.Join(dir, "snapshots", name)
		case "index":
			p = filepath.Join(dir, "index", name)
		case "key":
			p = filepath.Join(dir, "keys", name)
		case "lock":
			p = filepath.Join(dir, "locks", name)
		default:
			panic("unknown type " + typ)
		}
		if err := os.MkdirAll(filepath.Dir(p), 0755); err != nil {
			panic(err)
		}
		if err := os.WriteFile(p, v, 0644); err != nil {
			panic(err)
		}
	}
	for _, d := range []string{"data", "snapshots", "index", "keys", "locks"} {
		_ = os.MkdirAll(filepath.Join(dir, d), 0755)
	}
	_ = os.Chmod(dir, 0755)
}

// vChildRestic runs the harness binary as plain `restic` (no harness stream) as user nobody.
func vChildRestic(repoDir, tmp string, timeout time.Duration, args ...string) (exit int, out string, hang bool) {
	self, err := os.Executable()
	if err != nil {
		panic(err)
	}
	ctx, cancel := context.WithTimeout(context.Background(), timeout)
	defer cancel()
	full := append([]string{"--reuid=65534", "--regid=65534", "--clear-groups", self, "-r", repoDir, "--no-cache", "--no-lock"}, args...)
	cmd := exec.CommandContext(ctx, "setpriv", full...)
	cmd.Env = []string{"RESTIC_PASSWORD=geheim", "TMPDIR=" + tmp, "HOME=" + tmp, "PATH=/usr/bin:/bin"}
	var buf bytes.Buffer
	cmd.Stdout = &buf
	cmd.Stderr = &buf
	cmd.WaitDelay = 2 * time.Second
	err = cmd.Run()
	if ctx.Err() != nil {
		return -1, buf.String(), true
	}
	if err != nil {
		if ee, ok := err.(*exec.ExitError); ok {
			return ee.ExitCode(), buf.String(), false
		}
		return -2, buf.String() + err.Error(), false
	}
	return 0, buf.String(), false
}

func vCanSetpriv() bool {
	if os.Geteuid() != 0 {
		return false
	}
	_, err := exec.LookPath("setpriv")
	return err == nil
}

// vChownR gives a tree to user nobody (never follows symlinks).
func vChownR(root string) {
	_ = filepath.Walk(root, func(p string, _ os.FileInfo, err error) error {
		if err == nil {
			_ = os.Lchown(p, c19Nobody, c19Nobody)
		}
		return nil
	})
}

func vLutimes(p string, t time.Time) {
	ts := []unix.Timespec{unix.NsecToTimespec(t.UnixNano()), unix.NsecToTimespec(t.UnixNano())}
	_ = unix.UtimesNanoAt(unix.AT_FDCWD, p, ts, unix.AT_SYMLINK_NOFOLLOW)
}

// vPreallocWorks probes whether fallocate extends files on the scratch file system.
func vPreallocWorks() bool {
	f, err := os.CreateTemp(verifTmpRoot(), "prealloc-")
	if err != nil {
		return false
	}
	defer os.Remove(f.Name())
	defer f.Close()
	if err := fileio.PreallocateFile(f, 10); err != nil {
		return false
	}
	st, err := f.Stat()
	return err == nil && st.Size() == 10
}

type c19Pre struct {
	kind     string // missing reg dir dirne symlink dangling
	data     []byte
	perm     os.FileMode
	links    int
	mtimeRel int64 // nanoseconds relative to the node's mtime
}

type c19Case struct {
	parts  [][]byte
	size   *uint64
	pre    c19Pre
	ow     string
	sparse bool
	del    bool
	child  bool
	snapID restic.ID
	dup    []bool
	labels []string
}

func c19Concat(parts [][]byte) []byte {
	var b []byte
	for _, p := range parts {
		b = append(b, p...)
	}
	return b
}

func c19GenParts(h *H, big bool) ([][]byte, []string) {
	var parts [][]byte
	var labels []string
	zeroish := func(n int) []byte { // zeros with a non-zero tail (zero PREFIX matters for sparse writes)
		p := make([]byte, n)
		k := h.Intn(n + 1)
		for i := k; i < n; i++ {
			p[i] = byte(1 + h.Intn(255))
		}
		return p
	}
	nb := 1 + h.Intn(4)
	switch h.Intn(10) {
	case 0:
		nb = 0
		labels = append(labels, "empty-file")
	case 1, 2, 3:
		nb = 1
	case 4:
		nb = 26 + h.Intn(4)
		labels = append(labels, "large-file")
	}
	for i := 0; i < nb; i++ {
		n := 1 + h.Intn(12)
		if h.Intn(6) == 0 {
			n = 0
		}
		var p []byte
		switch h.Intn(4) {
		case 0:
			p = make([]byte, n) // all zero
		case 1:
			if n > 0 {
				p = zeroish(n)
			}
		default:
			p = h.Bytes(n)
		}
		parts = append(parts, p)
	}
	if big && nb >= 1 {
		// a real zero chunk: the only way a multi-blob file is written sparsely
		parts[h.Intn(len(parts))] = make([]byte, c19ZeroChunkLen)
		labels = append(labels, "zero-chunk")
	}
	return parts, labels
}

// the node's mtime is vBaseTime + 500 ms; offsets of the existing item's mtime in ns: equal,
// far away, and less than a second away (inside the same second / across a second boundary)
var c19NodeMtime = vBaseTime.Add(500 * time.Millisecond)
var c19MtimeRels = []int64{0, 0, -100e9, 100e9, -300e6, 300e6, -700e6, 700e6, -1, 1}

func c19GenPre(h *H, content []byte, parts [][]byte) (c19Pre, string) {
	pre := c19Pre{perm: 0600, links: 1}
	pre.mtimeRel = c19MtimeRels[h.Intn(len(c19MtimeRels))]
	lbl := ""
	rnd := func(n int) []byte {
		b := h.Bytes(n)
		for i := range b { // never produce zero bytes by accident: old data must be visible
			if b[i] == 0 {
				b[i] = 0xaa
			}
		}
		return b
	}
	switch k := h.Intn(20); {
	case k == 0 || k == 1:
		pre.kind, lbl = "missing", "pre-missing"
	case k == 2:
		pre.kind, lbl = "dir", "pre-dir-empty"
	case k == 3:
		pre.kind, lbl = "dirne", "pre-dir-nonempty"
	case k == 4:
		pre.kind, lbl = "symlink", "pre-symlink"
	case k == 5:
		pre.kind, lbl = "dangling", "pre-symlink-dangling"
	default:
		pre.kind = "reg"
		switch h.Intn(8) {
		case 0:
			pre.data, lbl = append([]byte(nil), content...), "pre-identical"
		case 1:
			pre.data, lbl = rnd(len(content)), "pre-samesize-different"
		case 2:
			n := 0
			if len(content) > 0 {
				n = h.Intn(len(content))
			}
			if h.Bool() {
				pre.data = append([]byte(nil), content[:n]...)
			} else {
				pre.data = rnd(n)
			}
			lbl = "pre-shorter"
		case 3:
			if h.Bool() {
				pre.data = append(append([]byte(nil), content...), rnd(1+h.Intn(9))...)
			} else {
				pre.data = rnd(len(content) + 1 + h.Intn(9))
			}
			lbl = "pre-longer"
		case 4, 5:
			// some blobs identical, others not
			for _, p := range parts {
				if h.Bool() {
					pre.data = append(pre.data, p...)
				} else {
					pre.data = append(pre.data, rnd(len(p))...)
				}
			}
			if h.Intn(3) == 0 {
				pre.data = append(pre.data, rnd(1+h.Intn(4))...)
			}
			lbl = "pre-partial-match"
		case 6:
			pre.data, lbl = nil, "pre-empty"
		default:
			pre.data, lbl = rnd(1+h.Intn(30)), "pre-random"
		}
		if h.Intn(6) == 0 {
			pre.links = 2
		}
		switch h.Intn(16) {
		case 0, 1:
			pre.perm = 0200
		case 2:
			pre.perm = 0400
		case 3:
			pre.perm = 0000
		}
	}
	return pre, lbl
}

func streamC19(h *H) {
	tmpRoot := verifTmpRoot()
	canChild := vCanSetpriv()
	if canChild && os.Getenv("RESTIC_VERIF_TMP") != "" {
		_ = os.Chmod(tmpRoot, 0711) // user nobody must be able to reach the sandboxes below
	}
	prealloc := vPreallocWorks()
	zc := restic.Hash(make([]byte, c19ZeroChunkLen))

	nBatches := h.N(4, 48)
	perBatch := 40
	for bi := 0; bi < nBatches; bi++ {
		repo, be := vNewRepo()
		if repo.ChunkerFactory().ZeroChunk() != zc {
			panic("zero chunk is not 512 KiB of zeros")
		}
		var cases []*c19Case
		anyChild := false
		for i := 0; i < perBatch; i++ {
			c := &c19Case{}
			var l []string
			c.parts, l = c19GenParts(h, h.Intn(16) == 0)
			c.labels = append(c.labels, l...)
			content := c19Concat(c.parts)
			if h.Intn(25) == 0 {
				sz := uint64(len(content) + 1 + h.Intn(3))
				c.size = &sz
				c.labels = append(c.labels, "inconsistent-node-size")
			}
			var pl string
			c.pre, pl = c19GenPre(h, content, c.parts)
			c.labels = append(c.labels, pl)
			c.ow = []string{"always", "always", "if-changed", "if-changed", "if-newer", "never"}[h.Intn(6)]
			c.sparse = h.Bool()
			c.del = h.Intn(4) == 0
			rndNZ := func(n int) []byte {
				b := h.Bytes(n)
				for i := range b {
					if b[i] == 0 {
						b[i] = 0x55
					}
				}
				return b
			}
			switch h.Intn(12) {
			case 0:
				// family "zero chunk over an existing readable file, --sparse": the existing file is
				// opened in place, so every zero region of the snapshot must really be written
				if len(content) < c19ZeroChunkLen {
					c.parts, _ = c19GenParts(h, true)
					if len(c19Concat(c.parts)) < c19ZeroChunkLen {
						c.parts = append(c.parts, make([]byte, c19ZeroChunkLen))
					}
					content = c19Concat(c.parts)
					c.size = nil
				}
				n := len(content)
				switch h.Intn(3) {
				case 1:
					n -= 1 + h.Intn(1000)
				case 2:
					n += 1 + h.Intn(1000)
				}
				c.pre = c19Pre{kind: "reg", data: rndNZ(n), perm: 0600, links: 1, mtimeRel: c19MtimeRels[h.Intn(len(c19MtimeRels))]}
				c.sparse = true
				c.ow = []string{"always", "if-changed"}[h.Intn(2)]
				c.labels = []string{"zero-chunk", "family-sparse-over-existing", "pre-random"}
			case 1:
				// family "mtime boundary": same size, different content, mtime equal or less than a
				// second away from the node's; if-changed and if-newer decide on exactly this
				if len(content) > 0 && len(content) < 4096 && c.size == nil {
					c.pre = c19Pre{kind: "reg", data: rndNZ(len(content)), perm: 0600, links: 1,
						mtimeRel: []int64{-300e6, 300e6, -700e6, 700e6, -1, 1, 0}[h.Intn(7)]}
					c.ow = []string{"if-changed", "if-newer"}[h.Intn(2)]
					c.labels = append(c.labels[:0], "family-mtime-boundary", "pre-samesize-different")
				}
			case 2:
				// family "repeated chunk, truncated copy": the same non-zero blob several times; the
				// existing file is a copy cut at the start of / inside a repeated chunk
				x := rndNZ(4 + h.Intn(40))
				reps := 2 + h.Intn(3)
				c.parts = nil
				if h.Intn(3) == 0 {
					c.parts = append(c.parts, rndNZ(1+h.Intn(10)))
				}
				for r := 0; r < reps; r++ {
					c.parts = append(c.parts, append([]byte(nil), x...))
				}
				if h.Intn(3) == 0 {
					c.parts = append(c.parts, rndNZ(1+h.Intn(10)))
				}
				content = c19Concat(c.parts)
				c.size = nil
				first := 0
				if len(c.parts[0]) != len(x) || !bytes.Equal(c.parts[0], x) {
					first = len(c.parts[0])
				}
				// cut position: inside or at the start of the 2nd..last copy
				cut := first + len(x)*(1+h.Intn(reps-1)) + h.Intn(len(x))
				if h.Intn(3) == 0 {
					cut = first + len(x)*(1+h.Intn(reps-1))
				}
				c.pre = c19Pre{kind: "reg", data: append([]byte(nil), content[:cut]...), perm: 0600, links: 1,
					mtimeRel: c19MtimeRels[h.Intn(len(c19MtimeRels))]}
				c.ow = []string{"always", "if-changed"}[h.Intn(2)]
				c.labels = []string{"family-repeated-blob-truncated", "pre-shorter"}
			case 3:
				// family "blob stored in two packs": B (and C) are stored by an earlier session; this
				// file's session stores a second copy of B next to a new blob A. The file is [A, B] or
				// [C, B]: one blob from each pack, whichever copy of B the index lists first.
				bB := rndNZ(8 + h.Intn(20))
				bC := rndNZ(8 + h.Intn(20))
				bA := rndNZ(8 + h.Intn(20))
				_, _ = vSaveSnapshot(repo, []*vNode{{Name: "pre", Type: data.NodeTypeFile, Parts: [][]byte{bB, bC}}})
				if h.Bool() {
					c.parts = [][]byte{bA, bB}
				} else {
					c.parts = [][]byte{bC, bB}
				}
				c.dup = []bool{false, true}
				if h.Intn(3) == 0 { // a longer file around it
					c.parts = append(c.parts, rndNZ(5))
					c.dup = append(c.dup, false)
				}
				content = c19Concat(c.parts)
				c.size = nil
				if c.pre.kind == "reg" {
					c.pre.data = rndNZ(len(content))
					c.pre.links = 1
				}
				if c.ow == "never" || c.ow == "if-newer" {
					c.ow = "always"
				}
				c.labels = []string{"family-blob-in-two-packs", "pre-" + c.pre.kind}
			}
			if c.pre.mtimeRel != 0 && c.pre.mtimeRel > -1e9 && c.pre.mtimeRel < 1e9 {
				c.labels = append(c.labels, "mtime-subsecond-apart")
			}
			// permission bits only mean something for a non-root restore
			c.child = canChild && (c.pre.kind == "reg" && c.pre.perm != 0600 || h.Intn(30) == 0)
			if c.child && len(content) > 100000 && h.Intn(3) > 0 {
				c.child = false
			}
			anyChild = anyChild || c.child
			node := &vNode{Name: "f", Type: data.NodeTypeFile, Parts: c.parts, Size: c.size, MTime: c19NodeMtime, DupPart: c.dup}
			_, c.snapID = vSaveSnapshot(repo, []*vNode{node})
			cases = append(cases, c)
		}
		batchDir := MkTemp("c19b-")
		_ = os.Chmod(batchDir, 0755)
		repoDir := filepath.Join(batchDir, "repo")
		if anyChild {
			vExportLocal(be, repoDir)
		}
		cli := NewCLI(be)

		for ci, c := range cases {
			sb := filepath.Join(batchDir, fmt.Sprintf("c%d", ci))
			target := filepath.Join(sb, "target")
			side := filepath.Join(sb, "side")
			_ = os.MkdirAll(target, 0755)
			_ = os.MkdirAll(side, 0755)
			fpath := filepath.Join(target, "f")
			mt := c19NodeMtime.Add(time.Duration(c.pre.mtimeRel))
			sideContent := []byte("SIDE-CONTENT-MUST-STAY")
			switch c.pre.kind {
			case "reg":
				_ = os.WriteFile(fpath, c.pre.data, 0600)
				if c.pre.links > 1 {
					_ = os.Link(fpath, filepath.Join(side, "hl"))
				}
				_ = os.Chtimes(fpath, mt, mt)
				_ = os.Chmod(fpath, c.pre.perm)
			case "dir":
				_ = os.Mkdir(fpath, 0755)
				vLutimes(fpath, mt)
			case "dirne":
				_ = os.Mkdir(fpath, 0755)
				_ = os.WriteFile(filepath.Join(fpath, "inner"), []byte("x"), 0600)
				vLutimes(fpath, mt)
			case "symlink":
				_ = os.WriteFile(filepath.Join(side, "st"), sideContent, 0600)
				_ = os.Symlink("../side/st", fpath)
				vLutimes(fpath, mt)
			case "dangling":
				_ = os.Symlink("../side/nothing", fpath)
				vLutimes(fpath, mt)
			}
			if c.child {
				vChownR(sb)
			}

			args := []string{"restore", c.snapID.String(), "--target", target, "--overwrite", c.ow}
			if c.sparse {
				args = append(args, "--sparse")
			}
			if c.del {
				args = append(args, "--delete")
			}
			exit, hang, outText := 0, false, ""
			t0 := time.Now()
			if c.child {
				exit, outText, hang = vChildRestic(repoDir, sb, 240*time.Second, args...)
			} else {
				var r CmdResult
				fin := vWithTimeout(240*time.Second, func(ctx context.Context) { r = cli.RunCtx(ctx, args...) })
				hang = !fin
				exit = r.Exit
				outText = r.Stderr
			}

			if os.Getenv("RESTIC_VERIF_DEBUG") != "" {
				fmt.Fprintf(os.Stderr, "timing child=%v %v\n", c.child, time.Since(t0))
			}
			// ---- records
			h.Case("file")
			lbl := append([]string{}, c.labels...)
			lbl = append(lbl, "ow-"+c.ow)
			if c.sparse {
				lbl = append(lbl, "sparse")
			}
			if c.del {
				lbl = append(lbl, "delete")
			}
			if c.child {
				lbl = append(lbl, "nonroot")
			}
			h.Rec("lbl", strings.Join(lbl, ","))
			content := c19Concat(c.parts)
			size := uint64(len(content))
			if c.size != nil {
				size = *c.size
			}
			toks := []string{U64(size)}
			for _, p := range c.parts {
				toks = append(toks, RLE(p))
			}
			h.Rec("node", toks...)
			readable, writable := true, true
			if c.child {
				readable = c.pre.perm&0400 != 0
				writable = c.pre.perm&0200 != 0
			}
			switch c.pre.kind {
			case "reg":
				h.Rec("pre", "reg", RLE(c.pre.data), B(readable), B(writable), Itoa(c.pre.links), I64(c.pre.mtimeRel))
			default:
				h.Rec("pre", c.pre.kind, "-", "1", "1", "1", I64(c.pre.mtimeRel))
			}
			mode := "inproc"
			if c.child {
				mode = "child"
			}
			h.Rec("opt", c.ow, B(c.sparse), B(c.del), mode)
			h.Rec("oracle", "prealloc", B(prealloc))
			h.Rec("oracle", "zerochunk", Itoa(c19ZeroChunkLen))
			if hang {
				h.Rec("res", "hang")
			} else {
				st, err := os.Lstat(fpath)
				switch {
				case err != nil:
					h.Rec("res", Itoa(exit), "missing")
				case st.Mode().IsRegular():
					b, _ := os.ReadFile(fpath)
					h.Rec("res", Itoa(exit), "reg", RLE(b))
				case st.IsDir():
					h.Rec("res", Itoa(exit), "dir")
				case st.Mode()&os.ModeSymlink != 0:
					h.Rec("res", Itoa(exit), "symlink")
				default:
					h.Rec("res", Itoa(exit), "special")
				}
			}
			// things outside the file that must not change: the other hard link, the link target
			sideOK := true
			if c.pre.kind == "reg" && c.pre.links > 1 {
				b, err := os.ReadFile(filepath.Join(side, "hl"))
				sideOK = err == nil && bytes.Equal(b, c.pre.data)
			}
			if c.pre.kind == "symlink" {
				b, err := os.ReadFile(filepath.Join(side, "st"))
				sideOK = err == nil && bytes.Equal(b, sideContent)
			}
			if _, err := os.Lstat(filepath.Join(side, "nothing")); err == nil {
				sideOK = false
			}
			h.Rec("side", B(sideOK))
			if exit != 0 && os.Getenv("RESTIC_VERIF_DEBUG") != "" {
				fmt.Fprintf(os.Stderr, "case %d exit %d: %s\n", ci, exit, outText)
			}
			h.End()
			// make everything removable again, then clean up
			_ = filepath.Walk(sb, func(p string, fi os.FileInfo, err error) error {
				if err == nil && fi.Mode()&os.ModeSymlink == 0 {
					_ = os.Chmod(p, 0700)
				}
				return nil
			})
			_ = os.RemoveAll(sb)
		}
		_ = os.RemoveAll(batchDir)
	}
}
