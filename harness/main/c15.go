//go:build verif

package main

// C15 — check reports no errors on any repository restic itself produced.
//
// Substream `hist`: a generated history of real CLI commands on an in-memory repository behind a
// RecBackend; every command is optionally cut at a random mutating backend operation (the number
// of mutations the command performs is measured on a clone first). After every command: stale
// locks are removed, the abstract repository state (packs with their header blobs, index files
// with their entries, snapshots with the blobs they reference) is extracted from the real
// backend, and the real `check --read-data --json` runs. The driver replays the recorded backend
// events through the abstract acceptor, compares the model state with the extracted state, the
// model's classification (error / hint) with check's summary, and evaluates the property.
//
// Substream `damaged`: the same state extraction + check on deliberately damaged repositories, so
// that the classification model is also compared on the error side (no property claim there).

import (
	"context"
	"encoding/json"
	"fmt"
	"os"
	"path/filepath"
	"sort"
	"strings"
	"time"

	"github.com/restic/restic/internal/backend"
	"github.com/restic/restic/internal/backend/mem"
	"github.com/restic/restic/internal/data"
	"github.com/restic/restic/internal/repository"
	"github.com/restic/restic/internal/repository/index"
	"github.com/restic/restic/internal/restic"
)

var _ = verifRegister("C15", streamC15)

func c15Short(s string) string {
	if len(s) > 12 {
		return s[:12]
	}
	if s == "" {
		return "-"
	}
	return s
}

func c15Blob(h restic.BlobHandle) string {
	t := "d"
	if h.Type == restic.TreeBlob {
		t = "t"
	}
	return t + h.ID.String()[:11]
}

type c15Hist struct {
	h       *H
	be      *mem.MemoryBackend
	rec     *RecBackend
	cli     *CLI
	dir     string // scratch dir of this history
	src     string // backup source
	pw      string
	pws     []string // every password ever tried to set
	version int
	nfile   int
	opn     int
}

func c15Open(be backend.Backend, pw string) (repo *repository.Repository, err error) {
	panicked, msg := Protect(func() {
		repo, err = repository.New(be, repository.Options{})
		if err != nil {
			return
		}
		err = repo.SearchKey(context.Background(), pw, 20, "")
	})
	if panicked {
		return nil, fmt.Errorf("panic: %s", msg)
	}
	return repo, err
}

// currentPassword finds out which password opens the repository now (key ops may have been cut).
func (c *c15Hist) fixPassword() {
	cands := append([]string{c.pw}, c.pws...)
	for i := len(cands) - 1; i >= 0; i-- { // newest first
		if _, err := c15Open(c.be, cands[i]); err == nil {
			c.pw = cands[i]
			c.cli.Password = c.pw
			return
		}
	}
}

func (c *c15Hist) removeLocks() {
	ctx := context.Background()
	var names []string
	_ = c.be.List(ctx, backend.LockFile, func(fi backend.FileInfo) error { names = append(names, fi.Name); return nil })
	for _, n := range names {
		_ = c.be.Remove(ctx, backend.Handle{Type: backend.LockFile, Name: n})
	}
}

// state extraction -----------------------------------------------------------------------------

func (c *c15Hist) emitState(n int) {
	h := c.h
	ctx := context.Background()
	N := Itoa(n)
	repo, err := c15Open(c.be, c.pw)
	if err != nil {
		h.Rec("st", N, "unopenable")
		return
	}
	h.Rec("st", N, "ok")
	// packs
	type fi struct {
		name string
		size int64
	}
	var packs []fi
	_ = c.be.List(ctx, backend.PackFile, func(f backend.FileInfo) error { packs = append(packs, fi{f.Name, f.Size}); return nil })
	sort.Slice(packs, func(i, j int) bool { return packs[i].name < packs[j].name })
	for _, p := range packs {
		id, err := restic.ParseID(p.name)
		if err != nil {
			h.Rec("pk", N, c15Short(p.name), "unreadable")
			continue
		}
		hs, err := repo.ListPackHandles(ctx, id, p.size)
		if err != nil {
			h.Rec("pk", N, c15Short(p.name), "unreadable")
			continue
		}
		var l []string
		for _, bh := range hs {
			l = append(l, c15Blob(bh))
		}
		sort.Strings(l)
		h.Rec("pk", append([]string{N, c15Short(p.name), "ok"}, l...)...)
	}
	// index files
	var idxs []string
	_ = c.be.List(ctx, backend.IndexFile, func(f backend.FileInfo) error { idxs = append(idxs, f.Name); return nil })
	sort.Strings(idxs)
	for _, name := range idxs {
		id, err := restic.ParseID(name)
		if err != nil {
			h.Rec("ix", N, c15Short(name), "unreadable")
			continue
		}
		buf, err := repo.LoadUnpacked(ctx, restic.IndexFile, id)
		if err != nil {
			h.Rec("ix", N, c15Short(name), "unreadable")
			continue
		}
		idx, err := index.DecodeIndex(buf, id)
		if err != nil {
			h.Rec("ix", N, c15Short(name), "unreadable")
			continue
		}
		h.Rec("ix", N, c15Short(name), "ok")
		type ent struct {
			pack  string
			blobs []string
		}
		var ents []ent
		for pbs := range idx.EachByPack(ctx, restic.NewIDSet()) {
			e := ent{pack: c15Short(pbs.PackID.String())}
			for _, b := range pbs.Blobs {
				e.blobs = append(e.blobs, c15Blob(b.BlobHandle))
			}
			sort.Strings(e.blobs)
			ents = append(ents, e)
		}
		sort.Slice(ents, func(i, j int) bool { return ents[i].pack < ents[j].pack })
		for _, e := range ents {
			h.Rec("ie", append([]string{N, c15Short(name), e.pack}, e.blobs...)...)
		}
	}
	// snapshots with the blobs they reference
	if err := repo.LoadIndex(ctx, restic.NoopTerminalCounterFactory); err != nil {
		h.Rec("snerr", N, "index-unloadable")
	}
	type sn struct {
		id   string
		tree *restic.ID
		bad  bool
	}
	var sns []sn
	var snNames []string
	_ = c.be.List(ctx, backend.SnapshotFile, func(f backend.FileInfo) error { snNames = append(snNames, f.Name); return nil })
	sort.Strings(snNames)
	for _, name := range snNames {
		id, err := restic.ParseID(name)
		if err != nil {
			sns = append(sns, sn{id: c15Short(name), bad: true})
			continue
		}
		s, err := data.LoadSnapshot(ctx, repo, id)
		if err != nil || s.Tree == nil {
			sns = append(sns, sn{id: c15Short(name), bad: true})
			continue
		}
		sns = append(sns, sn{id: c15Short(name), tree: s.Tree})
	}
	for _, s := range sns {
		if s.bad {
			h.Rec("sn", N, s.id, "unloadable")
			continue
		}
		blobs := restic.NewBlobSet()
		var ferr error
		panicked, _ := Protect(func() {
			ferr = data.FindUsedBlobs(ctx, repo, restic.IDs{*s.tree}, blobs, restic.NoopCounter)
		})
		var l []string
		for bh := range blobs {
			l = append(l, c15Blob(bh))
		}
		sort.Strings(l)
		st := "ok"
		if panicked || ferr != nil {
			st = "unloadable"
		}
		h.Rec("sn", append([]string{N, s.id, st}, l...)...)
	}
}

type c15Summary struct {
	MessageType     string   `json:"message_type"`
	NumErrors       int      `json:"num_errors"`
	BrokenPacks     []string `json:"broken_packs"`
	HintRepairIndex bool     `json:"suggest_repair_index"`
	HintPrune       bool     `json:"suggest_prune"`
}

func (c *c15Hist) emitCheck(n int) {
	r := c.cli.Run("check", "--read-data", "--json")
	c.removeLocks()
	var sum c15Summary
	haveSum := false
	for _, line := range strings.Split(r.Stdout, "\n") {
		line = strings.TrimSpace(line)
		if strings.HasPrefix(line, "{") && strings.Contains(line, `"summary"`) {
			if json.Unmarshal([]byte(line), &sum) == nil && sum.MessageType == "summary" {
				haveSum = true
			}
		}
	}
	nerr := 0
	first := ""
	for _, line := range strings.Split(r.Stderr, "\n") {
		if strings.TrimSpace(line) != "" {
			nerr++
			if first == "" {
				first = line
			}
		}
	}
	if len(first) > 160 {
		first = first[:160]
	}
	c.h.Rec("chk", Itoa(n), Itoa(r.Exit), Itoa(sum.NumErrors), B(sum.HintRepairIndex), B(sum.HintPrune), Itoa(nerr), B(r.Panic != ""), B(haveSum), HexS(first+r.Panic))
}

// source tree ------------------------------------------------------------------------------------

func (c *c15Hist) mutateSource() {
	h := c.h
	names := []string{"a.txt", "b.bin", "c.tmp", "sub/d.txt", "sub/e.tmp", "sub/deep/f", "g", "big.bin"}
	k := 1 + h.Intn(3)
	if c.nfile == 0 {
		k = 3 + h.Intn(3)
	}
	for i := 0; i < k; i++ {
		n := names[h.Intn(len(names))]
		p := filepath.Join(c.src, n)
		switch h.Intn(6) {
		case 0:
			_ = os.Remove(p)
		default:
			_ = os.MkdirAll(filepath.Dir(p), 0o755)
			size := []int{0, 1, 100, 3000, 70000}[h.Intn(5)]
			if n == "big.bin" && h.Intn(3) == 0 {
				size = 700000 + h.Intn(900000) // more than one chunk now and then
			}
			_ = os.WriteFile(p, h.Bytes(size), 0o644)
			c.nfile++
		}
	}
}

func (c *c15Hist) snapshotIDs() []string {
	var ids []string
	_ = c.be.List(context.Background(), backend.SnapshotFile, func(f backend.FileInfo) error { ids = append(ids, f.Name); return nil })
	sort.Strings(ids)
	return ids
}

func (c *c15Hist) keyIDs() []string {
	var ids []string
	_ = c.be.List(context.Background(), backend.KeyFile, func(f backend.FileInfo) error { ids = append(ids, f.Name); return nil })
	sort.Strings(ids)
	return ids
}

// one operation: returns (model command class, variant label, args)
func (c *c15Hist) pickOp() (cmd, variant string, args []string, post func()) {
	h := c.h
	snaps := c.snapshotIDs()
	r := h.Intn(100)
	if len(snaps) == 0 && r >= 12 && r < 80 {
		r = 0
	}
	switch {
	case r < 34:
		c.mutateSource()
		args = []string{"backup", c.src}
		variant = "plain"
		switch h.Intn(5) {
		case 0:
			args = append(args, "--tag", "t"+Itoa(h.Intn(3)))
			variant = "tag"
		case 1:
			args = append(args, "--force")
			variant = "force"
		case 2:
			args = append(args, "--exclude", "*.tmp")
			variant = "exclude"
		}
		return "backup", variant, args, nil
	case r < 44:
		if h.Bool() {
			return "forgetprune", "keep-last", []string{"forget", "--keep-last", Itoa(1 + h.Intn(2)), "--prune"}, nil
		}
		return "forgetprune", "by-id", []string{"forget", snaps[h.Intn(len(snaps))], "--prune", "--max-unused", "0"}, nil
	case r < 50:
		if h.Bool() {
			return "forget", "keep-last", []string{"forget", "--keep-last", Itoa(1 + h.Intn(3))}, nil
		}
		return "forget", "by-id", []string{"forget", snaps[h.Intn(len(snaps))]}, nil
	case r < 60:
		v := [][]string{{"prune"}, {"prune", "--max-unused", "0"}, {"prune", "--repack-smaller-than", "1M", "--max-unused", "0"},
			{"prune", "--max-unused", "unlimited"}, {"prune", "--repack-uncompressed"}, {"prune", "--max-repack-size", "0"}}[h.Intn(6)]
		return "prune", strings.TrimPrefix(strings.Join(v[1:], ""), "--"), v, nil
	case r < 66:
		if h.Bool() {
			return "tag", "add", []string{"tag", "--add", "x" + Itoa(h.Intn(3))}, nil
		}
		return "tag", "set", []string{"tag", "--set", "y", snaps[h.Intn(len(snaps))]}, nil
	case r < 74:
		pat := []string{"*.tmp", "sub", "a.txt", "big.bin", "nomatch"}[h.Intn(5)]
		args = []string{"rewrite", "--exclude", pat}
		variant = "keep"
		if h.Bool() {
			args = append(args, "--forget")
			variant = "forget"
		}
		return "rewrite", variant, args, nil
	case r < 80:
		if h.Bool() {
			return "repairindex", "plain", []string{"repair", "index"}, nil
		}
		return "repairindex", "read-all-packs", []string{"repair", "index", "--read-all-packs"}, nil
	case r < 83:
		return "repairsnapshots", "forget", []string{"repair", "snapshots", "--forget"}, nil
	case r < 86:
		// `recover` is deliberately NOT generated: it is not in the operation list of C15's statement
		// (see docs/C15.md, observation on recover after an interrupted backup)
		return "repairsnapshots", "keep", []string{"repair", "snapshots"}, nil
	case r < 93:
		npw := "pw" + Itoa(h.Intn(1000))
		f := filepath.Join(c.dir, "newpw")
		_ = os.WriteFile(f, []byte(npw), 0o600)
		c.pws = append(c.pws, npw)
		if h.Bool() {
			return "key", "add", []string{"key", "add", "--new-password-file", f}, nil
		}
		return "key", "passwd", []string{"key", "passwd", "--new-password-file", f}, nil
	case r < 96:
		keys := c.keyIDs()
		if len(keys) > 1 {
			return "key", "remove", []string{"key", "remove", keys[h.Intn(len(keys))]}, nil
		}
		return "unlock", "plain", []string{"unlock"}, nil
	default:
		if c.version == 1 {
			return "migrate", "upgrade_repo_v2", []string{"migrate", "upgrade_repo_v2"}, nil
		}
		return "unlock", "remove-all", []string{"unlock", "--remove-all"}, nil
	}
}

func (c *c15Hist) emitEvents(n int) {
	for _, e := range c.rec.Events {
		if e.Op != "save" && e.Op != "remove" {
			continue
		}
		if e.Err {
			// A save can take effect although it reports an error: the in-memory backend stores the
			// file and then returns ctx.Err() when the command's context was cancelled meanwhile (a
			// neighbouring upload hit the crash point). Such a save is an event of the trace.
			if e.Op != "save" || e.Type == "" {
				continue
			}
			if _, err := c.be.Stat(context.Background(), backend.Handle{Type: ftByName(e.Type), Name: e.Name}); err != nil {
				continue
			}
		}
		t := "other"
		switch e.Type {
		case "data":
			t = "pack"
		case "index":
			t = "index"
		case "snapshot":
			t = "snap"
		}
		op := "s"
		if e.Op == "remove" {
			op = "r"
		}
		c.h.Rec("ev", Itoa(n), op, t, c15Short(e.Name))
	}
}

func (c *c15Hist) runOp(cut bool) {
	h := c.h
	cmd, variant, args, _ := c.pickOp()
	c.opn++
	n := c.opn
	// measure the number of mutating backend operations on a clone
	t0 := time.Now()
	m := 0
	if cut {
		clone := LoadBackend(DumpBackend(c.be))
		crec := NewRecBackend(clone)
		ccli := NewCLI(crec)
		ccli.Password = c.pw
		_ = ccli.Run(args...)
		m = crec.Mutations()
	}
	t1 := time.Now()
	c.rec.Reset()
	k := -1
	if cut && m > 0 {
		k = h.Intn(m)
		c.rec.CrashAfter = k
	}
	r := c.cli.Run(args...)
	t2 := time.Now()
	if k >= 0 && !c.rec.Crashed { // the real run needed fewer operations than the clone
		k = -1
	}
	if k >= 0 {
		h.Rec("op", Itoa(n), cmd, variant, "cut", Itoa(k), Itoa(m), Itoa(r.Exit), B(r.Panic != ""))
	} else {
		h.Rec("op", Itoa(n), cmd, variant, "full", Itoa(c.rec.Mutations()), Itoa(m), Itoa(r.Exit), B(r.Panic != ""))
	}
	c.emitEvents(n)
	c.rec.Reset()
	c.removeLocks()
	c.fixPassword()
	if cmd == "migrate" && k < 0 && r.Exit == 0 {
		c.version = 2
	}
	t3 := time.Now()
	c.emitState(n)
	t4 := time.Now()
	c.emitCheck(n)
	if os.Getenv("RESTIC_VERIF_DEBUG") != "" {
		fmt.Fprintf(os.Stderr, "op %s %v: dry %v real %v fix %v state %v check %v\n", cmd, k >= 0, t1.Sub(t0), t2.Sub(t1), t3.Sub(t2), t4.Sub(t3), time.Since(t4))
	}
}

// execOp runs one command through `run` with the crash point k (-1: none), then records events,
// state and check like runOp does. m = number of mutations measured beforehand (0 = unknown).
func (c *c15Hist) execOp(cmd, variant string, k, m int, run func() CmdResult) CmdResult {
	h := c.h
	c.opn++
	n := c.opn
	c.rec.Reset()
	if k >= 0 {
		c.rec.CrashAfter = k
	}
	r := run()
	if k >= 0 && !c.rec.Crashed {
		k = -1
	}
	if k >= 0 {
		h.Rec("op", Itoa(n), cmd, variant, "cut", Itoa(k), Itoa(m), Itoa(r.Exit), B(r.Panic != ""))
	} else {
		h.Rec("op", Itoa(n), cmd, variant, "full", Itoa(c.rec.Mutations()), Itoa(m), Itoa(r.Exit), B(r.Panic != ""))
	}
	c.emitEvents(n)
	c.rec.Reset()
	c.removeLocks()
	c.emitState(n)
	c.emitCheck(n)
	return r
}

// c15OnBackend wraps an existing backend state for one more command.
func c15OnBackend(h *H, be *mem.MemoryBackend) *c15Hist {
	c := &c15Hist{h: h, be: be, pw: "geheim", version: 2}
	c.rec = NewRecBackend(be)
	c.cli = NewCLI(c.rec)
	return c
}

func c15Write(dir, name string, data []byte) {
	p := filepath.Join(dir, name)
	_ = os.MkdirAll(filepath.Dir(p), 0o755)
	_ = os.WriteFile(p, data, 0o644)
}

// c15SweepPrune: directed histories for the index-rewrite phase of prune. A repository is
// prepared whose data pack is only partly used after a forget (so prune has to repack it), then
// `prune --max-unused 0` is cut after EVERY number of mutating backend operations, each time on a
// fresh copy of the prepared repository (fresh random file ids, hence fresh index load orders),
// followed by `check --read-data`. One case per cut: the prepared state is record group 0.
func c15SweepPrune(h *H) {
	n := h.N(8, 96)
	for i := 0; i < n; i++ {
		c := c15NewHist(h)
		c.version = 2
		c.init()
		nfiles := 3 + h.Intn(3)
		for j := 0; j < nfiles; j++ {
			c15Write(c.src, fmt.Sprintf("f%d", j), h.Bytes(500+h.Intn(4000)))
		}
		c15Write(c.src, "sub/g", h.Bytes(2000))
		c.cli.MustRun("backup", c.src)
		first := c.snapshotIDs()
		// drop one file, change another, add one: the first data pack stays partly used
		_ = os.Remove(filepath.Join(c.src, "f0"))
		c15Write(c.src, "f1", h.Bytes(700))
		c15Write(c.src, "new", h.Bytes(1500))
		c.cli.MustRun("backup", c.src)
		if h.Bool() {
			c15Write(c.src, "sub/g2", h.Bytes(900))
			c.cli.MustRun("backup", c.src)
		}
		variant := "by-id"
		if h.Bool() {
			c.cli.MustRun("forget", first[0])
		} else {
			c.cli.MustRun("forget", "--keep-last", "1")
			variant = "keep-last"
		}
		c.removeLocks()
		base := DumpBackend(c.be)
		args := []string{"prune", "--max-unused", "0"}
		if h.Intn(3) == 0 {
			args = []string{"prune", "--max-unused", "0", "--repack-uncompressed"}
		}
		// number of mutations of the uncut command
		crec := NewRecBackend(LoadBackend(base))
		_ = NewCLI(crec).Run(args...)
		m := crec.Mutations()
		for k := 0; k < m; k++ {
			d := c15OnBackend(h, LoadBackend(base))
			h.Case("sweep")
			h.Rec("hinit", "2")
			h.Rec("sweep", "prune", variant)
			d.emitState(0)
			d.execOp("prune", "sweep", k, m, func() CmdResult { return d.cli.Run(args...) })
			// a later complete prune must bring the repository to a clean state again
			if h.Intn(4) == 0 {
				d.execOp("prune", "after-cut", -1, 0, func() CmdResult { return d.cli.Run(args...) })
			}
			h.End()
		}
		_ = os.RemoveAll(c.dir)
	}
}

// c15SweepCopy: directed two-repository histories: `copy` into an empty destination cut after
// every number of mutating operations on the destination, then `repair index`, a resumed `copy`
// and (sometimes) a prune on the destination; check --read-data on the destination after each.
func c15SweepCopy(h *H) {
	n := h.N(4, 48)
	for i := 0; i < n; i++ {
		src := c15NewHist(h)
		src.version = 2
		src.init()
		for j := 0; j < 3+h.Intn(3); j++ {
			c15Write(src.src, fmt.Sprintf("f%d", j), h.Bytes(300+h.Intn(5000)))
		}
		c15Write(src.src, "dir/x", h.Bytes(1200))
		src.cli.MustRun("backup", src.src)
		if h.Bool() {
			c15Write(src.src, "dir/y", h.Bytes(800))
			src.cli.MustRun("backup", src.src)
		}
		src.removeLocks()
		copyOn := func(d *c15Hist) CmdResult {
			c2 := &CLI2{Be: d.rec, Be2: src.be, Password: "geheim", Password2: "geheim"}
			return c2.Run("copy", "--from-repo", "mem2:r")
		}
		// mutations of an uncut copy into a fresh destination
		probe := c15OnBackend(h, mem.New())
		probe.cli.MustRun("init")
		probe.removeLocks()
		dstBase := DumpBackend(probe.be)
		probe.rec.Reset()
		_ = copyOn(probe)
		m := probe.rec.Mutations()
		for k := 0; k < m; k++ {
			d := c15OnBackend(h, LoadBackend(dstBase))
			h.Case("hist")
			h.Rec("hinit", "2")
			d.execOp("copy", "sweep", k, m, func() CmdResult { return copyOn(d) })
			if h.Intn(3) > 0 {
				d.execOp("repairindex", "plain", -1, 0, func() CmdResult { return d.cli.Run("repair", "index") })
			}
			d.execOp("copy", "resumed", -1, 0, func() CmdResult { return copyOn(d) })
			if h.Intn(3) == 0 {
				d.execOp("prune", "max-unused0", -1, 0, func() CmdResult { return d.cli.Run("prune", "--max-unused", "0") })
			}
			h.End()
		}
		_ = os.RemoveAll(src.dir)
	}
}

func c15NewHist(h *H) *c15Hist {
	c := &c15Hist{h: h, be: mem.New(), pw: "geheim", version: 2}
	c.rec = NewRecBackend(c.be)
	c.cli = NewCLI(c.rec)
	c.dir = MkTemp("c15-")
	c.src = filepath.Join(c.dir, "src")
	_ = os.MkdirAll(c.src, 0o755)
	if h.Intn(4) == 0 {
		c.version = 1
	}
	return c
}

func (c *c15Hist) init() {
	c.cli.MustRun("init", "--repository-version", Itoa(c.version))
	c.rec.Reset()
	c.removeLocks()
}

func streamC15(h *H) {
	c15SweepPrune(h)
	c15SweepCopy(h)
	nh := h.N(16, 240)
	maxOps := 8
	if h.Thorough() {
		maxOps = 16
	}
	for i := 0; i < nh; i++ {
		c := c15NewHist(h)
		h.Case("hist")
		c.init()
		h.Rec("hinit", Itoa(c.version))
		nops := 3 + h.Intn(maxOps-2)
		for j := 0; j < nops; j++ {
			c.runOp(h.Bool())
		}
		h.End()
		if i%5 == 0 {
			c15Damaged(h, c)
		}
		_ = os.RemoveAll(c.dir)
	}
}

// c15Damaged damages the final repository of a history in one of a few ways and reports state and
// check result (classification correspondence on the error side).
func c15Damaged(h *H, c *c15Hist) {
	ctx := context.Background()
	list := func(t backend.FileType) []string {
		var l []string
		_ = c.be.List(ctx, t, func(f backend.FileInfo) error { l = append(l, f.Name); return nil })
		sort.Strings(l)
		return l
	}
	kind := []string{"remove-pack", "remove-index", "duplicate-index", "none"}[h.Intn(4)]
	switch kind {
	case "remove-pack":
		if l := list(backend.PackFile); len(l) > 0 {
			_ = c.be.Remove(ctx, backend.Handle{Type: backend.PackFile, Name: l[h.Intn(len(l))]})
		}
	case "remove-index":
		if l := list(backend.IndexFile); len(l) > 0 {
			_ = c.be.Remove(ctx, backend.Handle{Type: backend.IndexFile, Name: l[h.Intn(len(l))]})
		}
	case "duplicate-index":
		if l := list(backend.IndexFile); len(l) > 0 {
			if repo, err := c15Open(c.be, c.pw); err == nil {
				if id, err := restic.ParseID(l[h.Intn(len(l))]); err == nil {
					if buf, err := repo.LoadUnpacked(ctx, restic.IndexFile, id); err == nil {
						_, _ = repository.VerifC15SaveIndexCopy(ctx, repo, buf)
					}
				}
			}
		}
	}
	h.Case("damaged")
	h.Rec("damage", kind)
	c.emitState(0)
	c.emitCheck(0)
	h.End()
}
