//go:build verif

package main

// C29 — a repository opens with exactly the passwords of its current keys.
//
// Histories of `key add` / `key passwd` / `key remove` are run through the real CLI on an
// in-memory repository below a recording backend. Every operation is run once to completion and
// once per crash point (the backend becomes unavailable after k successful save/remove
// operations); after every run the repository is opened (`cat masterkey --no-lock`) with every
// password of the pool, and the master key obtained is compared with the original one. The
// harness keeps the ground truth "key id -> password it was created with" from its own inputs.
// Sub-streams: hist (valid histories), many (more than maxKeys keys, with and without
// --key-hint), bad (unparsable / foreign / corrupted key files injected). Records per case:
//
//	master <digest>                       master key of the repository
//	key <hexid> good <hexpw> <master digest> | key <hexid> bad       key files before the run + truth
//	op add|passwd|remove|none <hexpw of new key|-> <hex of key-id argument|->
//	session <hexpw> <hex hint|->
//	crash <k|-1>
//	res <exit> <class>
//	ev <op> <type> <hexname> <err 0/1>
//	after <hexid>                         key files after the run
//	open <hexpw> <hex hint|-> <class> <master-same 0/1/-> <hex of tried key ids joined by ,>

import (
	"context"
	"encoding/hex"
	"encoding/json"
	"errors"
	"os"
	"path/filepath"
	"sort"
	"strings"

	"github.com/restic/restic/internal/backend"
	"github.com/restic/restic/internal/backend/mem"
	"github.com/restic/restic/internal/repository"
	"github.com/restic/restic/internal/restic"
)

var _ = verifRegister("C29", streamC29)

// a15Crashy makes the simulated crash a permanent error, so that the retry layer gives up at once.
type a15Crashy struct{ *RecBackend }

func (c a15Crashy) IsPermanentError(err error) bool {
	return errors.Is(err, errCrashed) || c.RecBackend.IsPermanentError(err)
}
func (c a15Crashy) Unwrap() backend.Backend { return c.RecBackend }

type c29Truth struct {
	good   bool
	pw     string
	master string
}

type c29Repo struct {
	st     BeState
	truth  map[string]c29Truth // key id -> truth
	master string
}

func (r *c29Repo) clone() *c29Repo {
	n := &c29Repo{st: BeState{}, truth: map[string]c29Truth{}, master: r.master}
	for k, v := range r.st {
		n.st[k] = v
	}
	for k, v := range r.truth {
		n.truth[k] = v
	}
	return n
}

func c29KeyIDs(st BeState) []string {
	var l []string
	for _, k := range st.Names("key") {
		l = append(l, k[len("key/"):])
	}
	return l
}

func c29Class(r CmdResult) string {
	if r.Panic != "" {
		return "panic"
	}
	if r.Err == nil {
		return "ok"
	}
	m := r.Err.Error()
	switch {
	case errors.Is(r.Err, repository.ErrNoKeyFound):
		return "nokey"
	case strings.Contains(m, "maximum number of keys reached"):
		return "maxkeys"
	case strings.Contains(m, "is damaged"):
		return "damaged"
	case strings.Contains(m, "refusing to remove key currently used"):
		return "refused-current"
	case strings.Contains(m, "simulated crash"):
		return "crashed"
	case strings.Contains(m, "no matching ID found"), strings.Contains(m, "multiple IDs with prefix"):
		return "no-such-key"
	case strings.Contains(m, "already locked"):
		return "locked"
	}
	return "error"
}

// c29Tried returns the ids of the key files loaded before the first config load.
func c29Tried(evs []Event) []string {
	var l []string
	for _, e := range evs {
		if e.Op == "load" && e.Type == "config" {
			break
		}
		if e.Op == "load" && e.Type == "key" {
			l = append(l, e.Name)
		}
	}
	return l
}

func c29PwArgs(pw string) []string {
	if pw == "" {
		return []string{"--insecure-no-password"}
	}
	return nil
}

// c29Master opens the repository (state st) with pw and returns class, master digest, tried keys.
func c29Open(st BeState, pw, hint string) (class, master string, tried []string) {
	rec := NewRecBackend(LoadBackend(st))
	cli := NewCLI(rec)
	cli.Password = pw
	args := append([]string{"cat", "masterkey", "--no-lock"}, c29PwArgs(pw)...)
	if hint != "" {
		args = append(args, "--key-hint", hint)
	}
	r := cli.Run(args...)
	class = c29Class(r)
	if r.Err == nil {
		master = a15Digest([]byte(strings.TrimSpace(r.Stdout)))
	}
	return class, master, c29Tried(rec.Events)
}

func c29RecTruth(h *H, rp *c29Repo) {
	h.Rec("master", rp.master)
	for _, id := range c29KeyIDs(rp.st) {
		t, ok := rp.truth[id]
		if ok && t.good {
			h.Rec("key", HexS(id), "good", HexS(t.pw), t.master)
		} else {
			h.Rec("key", HexS(id), "bad")
		}
	}
}

func c29RecOpens(h *H, st BeState, rp *c29Repo, pool []string, hints map[string]string) {
	for _, pw := range pool {
		class, master, tried := c29Open(st, pw, "")
		ms := "-"
		if class == "ok" {
			ms = B(master == rp.master)
		}
		h.Rec("open", HexS(pw), "-", class, ms, HexS(strings.Join(tried, ",")))
	}
	var hk []string
	for pw := range hints {
		hk = append(hk, pw)
	}
	sort.Strings(hk)
	for _, pw := range hk {
		class, master, tried := c29Open(st, pw, hints[pw])
		ms := "-"
		if class == "ok" {
			ms = B(master == rp.master)
		}
		h.Rec("open", HexS(pw), HexS(hints[pw]), class, ms, HexS(strings.Join(tried, ",")))
	}
}

type c29Op struct {
	kind    string // add | passwd | remove
	newPw   string
	arg     string // key id (prefix) for remove
	session string
	hint    string
	user    bool
}

// c29Run runs one operation on a copy of rp with the given crash point; returns the repository
// afterwards (truth extended by the new key) and the number of mutations let through.
func c29Run(h *H, sub string, rp *c29Repo, op c29Op, crash int, pool []string, pwdir string) (*c29Repo, int, CmdResult) {
	inner := LoadBackend(rp.st)
	rec := NewRecBackend(inner)
	rec.CrashAfter = crash
	cli := NewCLI(a15Crashy{rec})
	cli.Password = op.session
	var args []string
	newPwArgs := func() []string {
		if op.newPw == "" {
			return []string{"--new-insecure-no-password"}
		}
		f := filepath.Join(pwdir, "newpw")
		if err := os.WriteFile(f, []byte(op.newPw+"\n"), 0o600); err != nil {
			panic(err)
		}
		return []string{"--new-password-file", f}
	}
	switch op.kind {
	case "add":
		args = append([]string{"key", "add"}, newPwArgs()...)
		if op.user {
			args = append(args, "--user", "u", "--host", "h")
		}
	case "passwd":
		args = append([]string{"key", "passwd"}, newPwArgs()...)
	case "remove":
		args = []string{"key", "remove", op.arg}
	}
	args = append(args, c29PwArgs(op.session)...)
	if op.hint != "" {
		args = append(args, "--key-hint", op.hint)
	}
	h.Case(sub)
	c29RecTruth(h, rp)
	h.Rec("op", op.kind, HexS(op.newPw), HexS(op.arg))
	h.Rec("session", HexS(op.session), HexS(op.hint))
	h.Rec("crash", Itoa(crash))
	r := cli.Run(args...)
	h.Rec("res", Itoa(r.Exit), c29Class(r))
	a15RecEvents(h, rec.Events)
	after := rp.clone()
	after.st = DumpBackend(inner)
	for _, e := range rec.Events {
		if e.Op == "save" && e.Type == "key" && !e.Err {
			after.truth[e.Name] = c29Truth{good: true, pw: op.newPw, master: rp.master}
		}
	}
	for _, id := range c29KeyIDs(after.st) {
		h.Rec("after", HexS(id))
	}
	// stale lock files of crashed runs do not matter: all opens use --no-lock
	c29RecOpensPw(h, after, pool)
	h.End()
	return after, rec.Mutations(), r
}

func c29RecOpensPw(h *H, rp *c29Repo, pool []string) {
	for _, pw := range pool {
		class, master, tried := c29Open(rp.st, pw, "")
		ms := "-"
		if class == "ok" {
			ms = B(master == rp.master)
		}
		h.Rec("open", HexS(pw), "-", class, ms, HexS(strings.Join(tried, ",")))
	}
}

func c29Init(pw string) *c29Repo {
	be := mem.New()
	cli := NewCLI(be)
	cli.Password = pw
	cli.MustRun(append([]string{"init"}, c29PwArgs(pw)...)...)
	st := DumpBackend(be)
	_, master, _ := c29Open(st, pw, "")
	rp := &c29Repo{st: st, truth: map[string]c29Truth{}, master: master}
	for _, id := range c29KeyIDs(st) {
		rp.truth[id] = c29Truth{good: true, pw: pw, master: master}
	}
	return rp
}

func (rp *c29Repo) workingPws() []string {
	m := map[string]bool{}
	for _, id := range c29KeyIDs(rp.st) {
		if t := rp.truth[id]; t.good && t.master == rp.master {
			m[t.pw] = true
		}
	}
	var l []string
	for k := range m {
		l = append(l, k)
	}
	sort.Strings(l)
	return l
}

func streamC29(h *H) {
	pwdir := MkTemp("c29-")
	defer os.RemoveAll(pwdir)
	pool := []string{"alpha", "beta", "", "g a m m a", "never-used"}
	genOp := func(rp *c29Repo) c29Op {
		op := c29Op{}
		wp := rp.workingPws()
		if len(wp) > 0 && h.Intn(8) != 0 {
			op.session = wp[h.Intn(len(wp))]
		} else {
			op.session = h.Pick(pool)
		}
		ids := c29KeyIDs(rp.st)
		switch k := h.Intn(10); {
		case k < 4:
			op.kind, op.newPw, op.user = "add", pool[h.Intn(4)], h.Bool()
		case k < 7:
			op.kind, op.newPw = "passwd", pool[h.Intn(4)]
		default:
			op.kind = "remove"
			id := ids[h.Intn(len(ids))]
			switch h.Intn(5) {
			case 0:
				op.arg = id[:8]
			case 1:
				op.arg = hex.EncodeToString(h.Bytes(4)) // most likely no such key
			default:
				op.arg = id
			}
		}
		if h.Intn(6) == 0 && len(ids) > 0 {
			op.hint = ids[h.Intn(len(ids))][:10]
		}
		return op
	}

	// --- hist: valid histories, every crash point
	nh := h.N(10, 120)
	for i := 0; i < nh; i++ {
		rp := c29Init(pool[h.Intn(4)])
		steps := 3 + h.Intn(5)
		for s := 0; s < steps; s++ {
			op := genOp(rp)
			full, m, _ := c29Run(h, "hist", rp, op, -1, pool, pwdir)
			for k := 0; k < m; k++ {
				c29Run(h, "hist", rp, op, k, pool, pwdir)
			}
			rp = full
		}
	}

	// --- many: more keys than maxKeys; hints
	nm := h.N(2, 6)
	for i := 0; i < nm; i++ {
		rp := c29Init("p0")
		// total number of keys: exactly maxKeys, maxKeys+1 (boundary, always), then 20..24
		nk := 19 + i
		if i >= 2 {
			nk = 19 + h.Intn(5)
		}
		be := LoadBackend(rp.st)
		cli := NewCLI(be)
		cli.Password = "p0"
		for j := 1; j <= nk; j++ {
			pw := "p" + Itoa(j)
			before := map[string]bool{}
			for _, id := range c29KeyIDs(DumpBackend(be)) {
				before[id] = true
			}
			f := filepath.Join(pwdir, "newpw")
			os.WriteFile(f, []byte(pw), 0o600)
			cli.MustRun("key", "add", "--new-password-file", f)
			for _, id := range c29KeyIDs(DumpBackend(be)) {
				if !before[id] {
					rp.truth[id] = c29Truth{good: true, pw: pw, master: rp.master}
				}
			}
		}
		rp.st = DumpBackend(be)
		ids := c29KeyIDs(rp.st)
		h.Case("many")
		c29RecTruth(h, rp)
		h.Rec("op", "none", "-", "-")
		h.Rec("crash", "-1")
		for _, id := range ids {
			h.Rec("after", HexS(id))
		}
		var pws []string
		hints := map[string]string{}
		// every key's password without hint; a few with a hint (naming the key or another one)
		for _, id := range ids {
			pws = append(pws, rp.truth[id].pw)
		}
		for j := 0; j < 6; j++ {
			id := ids[h.Intn(len(ids))]
			pw := rp.truth[id].pw
			if h.Bool() {
				hints[pw] = id[:12]
			} else {
				hints[pw] = ids[h.Intn(len(ids))][:12] // hint naming some other key
			}
		}
		pws = append(pws, "never-used")
		c29RecOpens(h, rp.st, rp, pws, hints)
		h.End()
		// operations on the crowded repository (session needs a hint to be reliable)
		for s := 0; s < 2; s++ {
			op := genOp(rp)
			for _, id := range ids {
				if rp.truth[id].pw == op.session {
					op.hint = id
				}
			}
			c29Run(h, "many", rp, op, -1, []string{"p0", "p3", "alpha", "never-used"}, pwdir)
		}
	}

	// --- bad: damaged / foreign key files next to good ones
	foreign := c29Init("alpha")
	var foreignKey []byte
	for _, id := range c29KeyIDs(foreign.st) {
		foreignKey = foreign.st["key/"+id]
	}
	nb := h.N(12, 160)
	for i := 0; i < nb; i++ {
		rp := c29Init(pool[h.Intn(2)])
		// one or two more good keys
		be := LoadBackend(rp.st)
		cli := NewCLI(be)
		cli.Password = rp.workingPws()[0]
		for j := 0; j < 1+h.Intn(2); j++ {
			pw := pool[h.Intn(2)]
			before := map[string]bool{}
			for _, id := range c29KeyIDs(DumpBackend(be)) {
				before[id] = true
			}
			f := filepath.Join(pwdir, "newpw")
			os.WriteFile(f, []byte(pw), 0o600)
			cli.MustRun("key", "add", "--new-password-file", f)
			for _, id := range c29KeyIDs(DumpBackend(be)) {
				if !before[id] {
					rp.truth[id] = c29Truth{good: true, pw: pw, master: rp.master}
				}
			}
		}
		rp.st = DumpBackend(be)
		ids := c29KeyIDs(rp.st)
		someKey := rp.st["key/"+ids[0]]
		bid := hex.EncodeToString(h.Bytes(32))
		kind := h.Intn(6)
		switch kind {
		case 0: // random bytes
			rp.st["key/"+bid] = h.Bytes(200)
		case 1: // JSON without KDF
			rp.st["key/"+bid] = []byte(`{"created":"2020-01-01T00:00:00Z","username":"x","hostname":"y"}`)
		case 2: // key data too short
			var k map[string]any
			json.Unmarshal(someKey, &k)
			k["data"] = "AAAA"
			b, _ := json.Marshal(k)
			rp.st["key/"+bid] = b
		case 3: // foreign key of another repository, same password "alpha" (named by its hash, as restic does)
			bid = restic.Hash(foreignKey).String()
			rp.st["key/"+bid] = foreignKey
			rp.truth[bid] = c29Truth{good: true, pw: "alpha", master: foreign.master}
		case 4: // ciphertext corrupted: behaves like a key of an unknown password
			var k map[string]any
			json.Unmarshal(someKey, &k)
			d := []byte(k["data"].(string))
			if d[20] == 'A' {
				d[20] = 'B'
			} else {
				d[20] = 'A'
			}
			k["data"] = string(d)
			b, _ := json.Marshal(k)
			bid = restic.Hash(b).String() // a consistent name: LoadRaw rejects files whose hash differs from their name
			rp.st["key/"+bid] = b
			rp.truth[bid] = c29Truth{good: true, pw: "\x01corrupted", master: rp.master}
		default: // a file whose name is not an ID: ignored by Repository.List
			delete(rp.st, "key/"+bid)
			rp.st["key/not-an-id"] = h.Bytes(100)
		}
		h.Case("bad")
		c29RecTruth(h, rp)
		h.Rec("op", "none", "-", "-")
		h.Rec("crash", "-1")
		h.Rec("badkind", Itoa(kind))
		for _, id := range c29KeyIDs(rp.st) {
			h.Rec("after", HexS(id))
		}
		c29RecOpensPw(h, rp, []string{"alpha", "beta", "never-used"})
		h.End()
	}
	_ = context.Background
}
