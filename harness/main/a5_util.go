//go:build verif

package main

// Helpers shared by the C20 / C27 streams (owner: A5): small generated trees on disk, backup
// through the CLI, snapshot listings, oracle tables for the filter model.

import (
	"context"
	"encoding/json"
	"fmt"
	"os"
	"path/filepath"
	"sort"
	"strings"
	"syscall"

	"github.com/restic/restic/internal/data"
	"github.com/restic/restic/internal/filter"
	"github.com/restic/restic/internal/restic"
)

type a5Node struct {
	Name     string
	Kind     byte // 'f' regular file, 'd' directory, 'o' other (symlink), 's' unix socket
	Size     int
	Children []*a5Node
}

var a5Names = []string{"a", "b", "c", "ab", "A", "Ab", "x.txt", "y.txt", "X.TXT", "d1", "d2"}

// a5GenTree generates the children of one directory: unique names, mostly files.
func a5GenTree(h *H, depth, maxKids int) []*a5Node {
	n := 1 + h.Intn(maxKids)
	if depth == 0 {
		n += 2
	}
	if depth > 0 && h.Intn(8) == 0 {
		n = 0 // empty directory
	}
	used := map[string]bool{}
	var res []*a5Node
	for i := 0; i < n; i++ {
		name := h.Pick(a5Names)
		if used[name] {
			continue
		}
		used[name] = true
		switch r := h.Intn(10); {
		case r < 4 && depth < 3:
			res = append(res, &a5Node{Name: name, Kind: 'd', Children: a5GenTree(h, depth+1, maxKids)})
		case r == 9:
			res = append(res, &a5Node{Name: name, Kind: 'o'})
		default:
			res = append(res, &a5Node{Name: name, Kind: 'f', Size: h.Intn(40)})
		}
	}
	sort.Slice(res, func(i, j int) bool { return res[i].Name < res[j].Name })
	return res
}

func a5WriteTree(dir string, nodes []*a5Node) {
	for _, n := range nodes {
		p := filepath.Join(dir, n.Name)
		switch n.Kind {
		case 'd':
			if err := os.Mkdir(p, 0o755); err != nil {
				panic(err)
			}
			a5WriteTree(p, n.Children)
		case 'o':
			if err := os.Symlink("target-of-"+n.Name, p); err != nil {
				panic(err)
			}
		case 's':
			if err := syscall.Mknod(p, syscall.S_IFSOCK|0o644, 0); err != nil {
				panic(err)
			}
		default:
			if err := os.WriteFile(p, []byte(strings.Repeat("z", n.Size)), 0o644); err != nil {
				panic(err)
			}
		}
	}
}

// all names-paths ("a/b/c") of a generated tree
func a5Paths(prefix string, nodes []*a5Node, out *[]string) {
	for _, n := range nodes {
		p := n.Name
		if prefix != "" {
			p = prefix + "/" + n.Name
		}
		*out = append(*out, p)
		if n.Kind == 'd' {
			a5Paths(p, n.Children, out)
		}
	}
}

type a5Entry struct {
	Path string // "/a/b"
	Type string // f | d | o | s (socket)
	Size uint64
}

// a5Ls lists a snapshot with `restic ls --json`.
func a5Ls(cli *CLI, snap string) []a5Entry {
	r := cli.Run("ls", "--json", snap)
	if r.Err != nil {
		panic(fmt.Sprintf("harness: ls %s failed: %v %s", snap, r.Err, r.Stderr))
	}
	var res []a5Entry
	for _, line := range strings.Split(r.Stdout, "\n") {
		if !strings.HasPrefix(line, "{") {
			continue
		}
		var n struct {
			StructType string `json:"struct_type"`
			Path       string `json:"path"`
			Type       string `json:"type"`
			Size       uint64 `json:"size"`
		}
		if err := json.Unmarshal([]byte(line), &n); err != nil || n.StructType != "node" {
			continue
		}
		t := "o"
		switch n.Type {
		case "file":
			t = "f"
		case "dir":
			t = "d"
		case "socket":
			t = "s"
		}
		if t != "f" {
			n.Size = 0
		}
		res = append(res, a5Entry{n.Path, t, n.Size})
	}
	return res
}

type a5Snap struct {
	ID       string `json:"id"`
	Original string `json:"original"`
	Summary  *struct {
		Files uint64 `json:"total_files_processed"`
		Bytes uint64 `json:"total_bytes_processed"`
	} `json:"summary"`
}

func a5Snapshots(cli *CLI) []a5Snap {
	r := cli.Run("snapshots", "--json")
	if r.Err != nil {
		panic(fmt.Sprintf("harness: snapshots failed: %v", r.Err))
	}
	var l []a5Snap
	if err := json.Unmarshal([]byte(r.Stdout), &l); err != nil {
		panic(err)
	}
	return l
}

// a5Backup initialises a fresh in-memory repository and backs up the tree so that the tree's
// top-level nodes are the top level of the snapshot (backup of "." inside the source directory).
func a5Backup(cli *CLI, nodes []*a5Node) (snapID string) {
	src := MkTemp("a5src-")
	defer os.RemoveAll(src)
	a5WriteTree(src, nodes)
	cli.MustRun("init")
	old, _ := os.Getwd()
	if err := os.Chdir(src); err != nil {
		panic(err)
	}
	r := cli.Run("backup", ".")
	_ = os.Chdir(old)
	if r.Err != nil {
		panic(fmt.Sprintf("harness: backup failed: %v %s", r.Err, r.Stderr))
	}
	sn := a5Snapshots(cli)
	if len(sn) != 1 {
		panic("harness: expected one snapshot")
	}
	return sn[0].ID
}

// a5Oracle writes the stdlib oracle records needed by the filter model for the given raw pattern
// strings (as handed to ParsePatterns) and path components: `clean` and `glob`.
func a5Oracle(h *H, rawPatterns []string, comps []string) {
	partSet := map[string]bool{"*": true}
	seenClean := map[string]bool{}
	for _, p := range rawPatterns {
		if p == "" {
			continue
		}
		body := p
		if body[0] == '!' {
			body = body[1:]
		}
		if !seenClean[body] {
			seenClean[body] = true
			h.Rec("clean", HexS(body), HexS(filepath.Clean(body)))
		}
		parts, _, _ := filter.VerifC28Prepare(p)
		for _, q := range parts {
			partSet[q] = true
		}
	}
	compSet := map[string]bool{"/": true, "": true}
	for _, c := range comps {
		compSet[c] = true
	}
	var partL, compL []string
	for p := range partSet {
		partL = append(partL, p)
	}
	for c := range compSet {
		compL = append(compL, c)
	}
	sort.Strings(partL)
	sort.Strings(compL)
	for _, p := range partL {
		toks := []string{HexS(p)}
		for _, c := range compL {
			toks = append(toks, HexS(c), c28Glob(p, c))
		}
		toks = append(toks, HexS(p), c28Glob(p, p))
		h.Rec("glob", toks...)
	}
}

// a5Flags is a generated set of pattern options of restore / rewrite: flag values and pattern files
// (each file = its lines) of the four kinds.
type a5Flags struct {
	Ex, IEx, In, IIn                 []string
	ExFile, IExFile, InFile, IInFile [][]string
}

// Args returns the command line flags; pattern files are written into dir.
func (f a5Flags) Args(dir string) []string {
	var a []string
	for _, p := range f.Ex {
		a = append(a, "--exclude", p)
	}
	for _, p := range f.IEx {
		a = append(a, "--iexclude="+p)
	}
	for _, p := range f.In {
		a = append(a, "--include", p)
	}
	for _, p := range f.IIn {
		a = append(a, "--iinclude="+p)
	}
	n := 0
	file := func(flag string, files [][]string) {
		for _, lines := range files {
			n++
			name := filepath.Join(dir, fmt.Sprintf("patterns-%d.txt", n))
			if err := os.WriteFile(name, []byte(strings.Join(lines, "\n")+"\n"), 0o644); err != nil {
				panic(err)
			}
			a = append(a, flag, name)
		}
	}
	file("--exclude-file", f.ExFile)
	file("--iexclude-file", f.IExFile)
	file("--include-file", f.InFile)
	file("--iinclude-file", f.IInFile)
	return a
}

func a5FileLines(files [][]string) []string {
	var l []string
	for _, f := range files {
		for _, line := range f {
			line = strings.TrimSpace(line)
			if line != "" && !strings.HasPrefix(line, "#") {
				l = append(l, line)
			}
		}
	}
	return l
}

// Raw returns every pattern string the model may have to clean / parse: flag values and file
// lines as given, and the lower-cased form of the case-insensitive ones.
func (f a5Flags) Raw() []string {
	var l []string
	l = append(l, f.Ex...)
	l = append(l, f.In...)
	l = append(l, a5FileLines(f.ExFile)...)
	l = append(l, a5FileLines(f.InFile)...)
	ins := append(append([]string(nil), f.IEx...), f.IIn...)
	ins = append(ins, a5FileLines(f.IExFile)...)
	ins = append(ins, a5FileLines(f.IInFile)...)
	for _, p := range ins {
		l = append(l, p, strings.ToLower(p))
	}
	return l
}

func (f a5Flags) Rec(h *H) {
	for _, p := range f.Ex {
		h.Rec("ex", HexS(p))
	}
	for _, p := range f.IEx {
		h.Rec("iex", HexS(p))
	}
	for _, p := range f.In {
		h.Rec("in", HexS(p))
	}
	for _, p := range f.IIn {
		h.Rec("iin", HexS(p))
	}
	file := func(key string, files [][]string) {
		for _, lines := range files {
			h.Rec(key, HexList(lines)...)
		}
	}
	file("exf", f.ExFile)
	file("iexf", f.IExFile)
	file("inf", f.InFile)
	file("iinf", f.IInFile)
}

// ToFiles moves some of the flag values into pattern files of the same kind (with comment lines,
// blank lines and surrounding white space, which readPatternsFromFiles must strip).
func (f a5Flags) ToFiles(h *H) a5Flags {
	move := func(vals []string) (keep []string, files [][]string) {
		var lines []string
		for _, v := range vals {
			if v != "" && h.Intn(2) == 0 && strings.TrimSpace(v) == v && !strings.HasPrefix(v, "#") && !strings.Contains(v, "$") {
				switch h.Intn(5) {
				case 0:
					lines = append(lines, "# a comment", "  "+v+"\t")
				case 1:
					lines = append(lines, "", v)
				default:
					lines = append(lines, v)
				}
			} else {
				keep = append(keep, v)
			}
		}
		if len(lines) > 0 {
			if len(lines) > 1 && h.Intn(3) == 0 {
				files = append(files, lines[:1], lines[1:])
			} else {
				files = append(files, lines)
			}
		} else if h.Intn(12) == 0 {
			files = append(files, []string{"# only a comment", ""})
		}
		return
	}
	f.Ex, f.ExFile = move(f.Ex)
	f.IEx, f.IExFile = move(f.IEx)
	f.In, f.InFile = move(f.In)
	f.IIn, f.IInFile = move(f.IIn)
	return f
}

// a5GenPattern makes a pattern that mostly refers to names of the tree (paths = names-paths).
func a5GenPattern(h *H, paths []string) string {
	mutate := func(c string) string {
		switch h.Intn(12) {
		case 0:
			return "*"
		case 1:
			return "**"
		case 2:
			if len(c) > 0 {
				return c[:1] + "*"
			}
		case 3:
			return "?"
		case 4:
			return "[a-c]"
		case 5:
			return "*.txt"
		case 6:
			return strings.ToUpper(c)
		case 7:
			return strings.ToLower(c)
		}
		return c
	}
	var comps []string
	if len(paths) > 0 && h.Intn(10) != 0 {
		comps = strings.Split(h.Pick(paths), "/")
	} else {
		comps = []string{h.Pick(a5Names)}
	}
	abs := h.Intn(2) == 0
	if !abs && len(comps) > 1 && h.Intn(2) == 0 {
		comps = comps[h.Intn(len(comps)):] // relative patterns: a suffix of the path
	}
	if len(comps) > 1 && h.Intn(4) == 0 {
		comps = comps[:1+h.Intn(len(comps)-1)] // a directory above
	}
	for i := range comps {
		comps[i] = mutate(comps[i])
	}
	if h.Intn(10) == 0 {
		i := h.Intn(len(comps) + 1)
		comps = append(comps[:i], append([]string{"**"}, comps[i:]...)...)
	}
	p := strings.Join(comps, "/")
	if abs {
		p = "/" + p
	}
	return p
}

func a5GenFlags(h *H, paths []string, include bool) a5Flags {
	var f a5Flags
	n := 1 + h.Intn(3)
	for i := 0; i < n; i++ {
		p := a5GenPattern(h, paths)
		if i > 0 && h.Intn(4) == 0 {
			p = "!" + p
		}
		if h.Intn(40) == 0 {
			p = h.Pick([]string{"[", "a[", "/", "**", "*", ""})
		}
		ins := h.Intn(4) == 0
		switch {
		case include && ins:
			f.IIn = append(f.IIn, p)
		case include:
			f.In = append(f.In, p)
		case ins:
			f.IEx = append(f.IEx, p)
		default:
			f.Ex = append(f.Ex, p)
		}
	}
	return f
}

// a5GraftSockets rewrites the tree of a snapshot so that some directories additionally hold socket
// nodes (hand-built data.Node of type "socket": the archiver of this version ignores sockets, but
// snapshots written by other versions contain them and restore has to cope: they are skipped, and
// their names still protect same-named target entries from --delete). Returns the id of the new
// snapshot (the old one is removed) and the number of socket nodes added.
func a5GraftSockets(h *H, cli *CLI, snapID string) (string, int) {
	ctx := context.Background()
	repo := cli.OpenRepo()
	if err := repo.LoadIndex(ctx, restic.NoopTerminalCounterFactory); err != nil {
		panic(err)
	}
	id, err := restic.ParseID(snapID)
	if err != nil {
		panic(err)
	}
	sn, err := data.LoadSnapshot(ctx, repo, id)
	if err != nil {
		panic(err)
	}
	added := 0
	sockNames := []string{"app.sock", "a", "b", "y.txt", "Ab", "xold", "stale"}
	var rebuild func(up restic.BlobSaver, tree restic.ID, depth int) restic.ID
	rebuild = func(up restic.BlobSaver, tree restic.ID, depth int) restic.ID {
		it, err := data.LoadTree(ctx, repo, tree)
		if err != nil {
			panic(err)
		}
		var nodes []*data.Node
		used := map[string]bool{}
		for item := range it {
			if item.Error != nil {
				panic(item.Error)
			}
			n := item.Node
			if n.Type == data.NodeTypeDir && n.Subtree != nil {
				sub := rebuild(up, *n.Subtree, depth+1)
				n.Subtree = &sub
			}
			used[n.Name] = true
			nodes = append(nodes, n)
		}
		for k := 0; k < 2; k++ {
			if h.Intn(3) != 0 {
				continue
			}
			name := h.Pick(sockNames)
			if used[name] {
				continue
			}
			used[name] = true
			added++
			nodes = append(nodes, &data.Node{Name: name, Type: data.NodeTypeSocket, Mode: os.ModeSocket | 0o644,
				ModTime: sn.Time, AccessTime: sn.Time, ChangeTime: sn.Time})
		}
		sort.Slice(nodes, func(i, j int) bool { return nodes[i].Name < nodes[j].Name })
		tw := data.NewTreeWriter(up)
		for _, n := range nodes {
			if err := tw.AddNode(n); err != nil {
				panic(err)
			}
		}
		nid, err := tw.Finalize(ctx)
		if err != nil {
			panic(err)
		}
		return nid
	}
	var newTree restic.ID
	err = repo.WithBlobUploader(ctx, func(ctx context.Context, up restic.BlobSaverWithAsync) error {
		newTree = rebuild(up, *sn.Tree, 0)
		return nil
	})
	if err != nil {
		panic(err)
	}
	if added == 0 {
		return snapID, 0
	}
	sn.Tree = &newTree
	nid, err := data.SaveSnapshot(ctx, repo, sn)
	if err != nil {
		panic(err)
	}
	if err := repo.RemoveUnpacked(ctx, restic.WriteableSnapshotFile, id); err != nil {
		panic(err)
	}
	return nid.String(), added
}
