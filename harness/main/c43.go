//go:build verif

package main

import (
	"bytes"
	"context"
	"errors"
	"fmt"
	"io"
	"sort"
	"strings"

	"github.com/klauspost/compress/zstd"

	"github.com/restic/restic/internal/backend"
	"github.com/restic/restic/internal/repository"
	"github.com/restic/restic/internal/repository/crypto"
	"github.com/restic/restic/internal/repository/pack"
	"github.com/restic/restic/internal/restic"
)

var _ = verifRegister("C43", streamC43)

// C43: real streamPack (substream pack: through a shim, with a harness-made sparse pack, a
// harness download function and fallback loader) and real Repository.LoadBlobsFromPack on
// in-memory repositories with damaged packs and duplicates in other packs (substream repo).
//
//   ent <idx> <off> <len> <good|damaged|invalid> <recover 0/1>     requested blobs, request order
//   notinpack <idx>                                               (repo) requested handle not in the pack
//   fb nil|fn            dlfail <n,…|-|all>            cbfail <idx,…|-> <propagate 0/1>
//   load <off> <len> <ok|fail>                                    each download, in order (pack only)
//   cb <idx> ok <payload-hashes-to-id 0/1> | cb <idx> err          each callback, in order
//   res ok | res <overlap|download|invalid|callback|notinpack|panic|other> <hex message>

type c43Ent struct {
	idx     int
	plain   []byte
	id      restic.ID
	off     uint
	length  uint
	ulen    uint
	stored  []byte
	state   string
	recover bool
}

var errC43Download = errors.New("c43: download failed")
var errC43Callback = errors.New("c43cb: callback failed")

func c43Seal(key *crypto.Key, data []byte) []byte {
	nonce := crypto.NewRandomNonce()
	ct := make([]byte, 0, crypto.CiphertextLength(len(data)))
	ct = append(ct, nonce...)
	return key.Seal(ct, nonce, data, nil)
}

var c43Enc *zstd.Encoder

func c43Zstd(p []byte) []byte {
	if c43Enc == nil {
		var err error
		c43Enc, err = zstd.NewWriter(nil)
		if err != nil {
			panic(err)
		}
	}
	return c43Enc.EncodeAll(p, nil)
}

// c43MakeEnt builds the stored bytes of one entry in the requested state.
func c43MakeEnt(h *H, key *crypto.Key, idx int, state string) *c43Ent {
	e := &c43Ent{idx: idx, state: state}
	n := 1 + h.Intn(60)
	if h.Intn(8) == 0 {
		n = 200 + h.Intn(2000)
	}
	e.plain = append([]byte(fmt.Sprintf("c43-%d-", idx)), h.Bytes(n)...)
	if h.Intn(3) == 0 { // compressible
		e.plain = append(e.plain, bytes.Repeat([]byte{byte(idx)}, 100)...)
	}
	e.id = restic.Hash(e.plain)
	compress := h.Bool()
	data := e.plain
	if compress {
		data = c43Zstd(e.plain)
		e.ulen = uint(len(e.plain))
	}
	e.stored = c43Seal(key, data)
	e.length = uint(len(e.stored))
	switch state {
	case "good":
	case "invalid":
		e.length = uint([]int{0, 1, 15, 16}[h.Intn(4)])
	case "damaged":
		switch h.Intn(4) {
		case 0: // bit flip: MAC verification fails
			e.stored[h.Intn(len(e.stored))] ^= 0x40
		case 1: // authentic ciphertext of other content: hash mismatch
			other := append([]byte("other-"), e.plain...)
			d := other
			if compress {
				d = c43Zstd(other)
				e.ulen = uint(len(other))
			}
			e.stored = c43Seal(key, d)
			e.length = uint(len(e.stored))
		case 2: // authentic ciphertext of something that is not a zstd stream
			e.stored = c43Seal(key, append([]byte{0xff, 0xfe, 0x00}, e.plain...))
			e.length = uint(len(e.stored))
			e.ulen = uint(len(e.plain))
		case 3: // index says the blob is longer than what was written (zeros follow)
			e.length += uint(1 + h.Intn(40))
		}
	}
	return e
}

type c43Pack struct {
	ents []*c43Ent // all entries physically in the pack, ascending offsets
}

func (p *c43Pack) read(off int64, length int) []byte {
	buf := make([]byte, length)
	for _, e := range p.ents {
		eo := int64(e.off)
		if eo+int64(len(e.stored)) <= off || eo >= off+int64(length) {
			continue
		}
		src := e.stored
		dst := eo - off
		if dst < 0 {
			src = src[-dst:]
			dst = 0
		}
		copy(buf[dst:], src)
	}
	return buf
}

func c43Class(err error, panicked bool) []string {
	switch {
	case panicked:
		return []string{"panic"}
	case err == nil:
		return []string{"ok"}
	}
	msg := err.Error()
	cls := "other"
	switch {
	case strings.Contains(msg, "c43cb:"):
		cls = "callback"
	case strings.Contains(msg, "overlapping blobs"):
		cls = "overlap"
	case strings.Contains(msg, "invalid blob length"):
		cls = "invalid"
	case strings.Contains(msg, "c43: download failed"):
		cls = "download"
	case strings.Contains(msg, "not found in pack"):
		cls = "notinpack"
	}
	return []string{cls, HexS(msg)}
}

func c43Join(l []int) string {
	if len(l) == 0 {
		return "-"
	}
	var s []string
	for _, x := range l {
		s = append(s, Itoa(x))
	}
	return strings.Join(s, ",")
}

func c43State(h *H) string {
	switch r := h.Intn(20); {
	case r < 13:
		return "good"
	case r < 19:
		return "damaged"
	default:
		return "invalid"
	}
}

func c43PackCase(h *H, key *crypto.Key) {
	mu := repository.VerifC43MaxUnusedRange()
	maxChunk := uint(2 * repository.DefaultPackSize)
	kind := "small"
	switch r := h.Intn(20); {
	case r == 0:
		kind = "chunk"
	case r == 1:
		kind = "huge"
	case r == 2:
		kind = "empty"
	}
	p := &c43Pack{}
	gaps := []uint{0, 0, 0, 1, 7, 50, 4000, mu - 1, mu, mu + 1, 3 * mu, 40 * mu}
	n := 1 + h.Intn(10)
	if kind == "chunk" {
		n = 34 + h.Intn(8)
	}
	off := uint(h.Intn(3)) * uint(h.Intn(5000))
	var partStart uint
	for i := 0; i < n; i++ {
		st := c43State(h)
		if kind == "chunk" && st == "invalid" {
			st = "good"
		}
		e := c43MakeEnt(h, key, i, st)
		if kind == "huge" && i == n/2 {
			// a single blob larger than maxChunkSize: its bytes are zeros (a damaged copy)
			e.state = "damaged"
			e.stored = nil
			e.length = maxChunk + uint(h.Intn(3)) - 1 + uint(h.Intn(2))*(1<<20)
			e.ulen = 0
		}
		gap := gaps[h.Intn(len(gaps))]
		if kind == "chunk" {
			gap = mu - 4096 - uint(h.Intn(3))
			// when the chunk limit comes within reach, place the blob so that the part would end
			// exactly at the limit, one byte below or one byte above
			if i > 0 {
				want := partStart + maxChunk - e.length + uint(h.Intn(3)) - 1
				if want >= off && want-off <= mu {
					gap = want - off
				}
			}
		}
		if i == 0 {
			gap = 0
			partStart = off
		}
		e.off = off + gap
		if gap > mu || (i > 0 && e.off+e.length-partStart >= maxChunk) {
			partStart = e.off
		}
		step := e.length
		if uint(len(e.stored)) > step {
			step = uint(len(e.stored))
		}
		if step == 0 {
			step = 1
		}
		off = e.off + step
		e.recover = h.Intn(3) > 0
		p.ents = append(p.ents, e)
	}
	// request: subset in random order; sometimes duplicates or a fabricated overlapping entry
	var req []*c43Ent
	sel := h.Intn(6)
	if kind == "chunk" {
		sel = 0 // skipping blobs would turn the 1 MiB gaps into splits
	}
	switch sel {
	case 0:
		req = append(req, p.ents...)
	default:
		for _, e := range p.ents {
			if h.Intn(3) > 0 {
				req = append(req, e)
			}
		}
		if len(req) == 0 {
			req = append(req, p.ents[h.Intn(len(p.ents))])
		}
	}
	if kind == "empty" {
		req = nil
	}
	if len(req) > 0 && h.Intn(12) == 0 {
		req = append(req, req[h.Intn(len(req))]) // the same blob twice
	}
	if len(req) > 0 && h.Intn(15) == 0 {
		base := req[h.Intn(len(req))]
		if base.length > 20 {
			f := *base
			f.idx = 1000 + base.idx
			f.id = restic.Hash([]byte(fmt.Sprintf("c43-fabricated-%d", f.idx)))
			f.off = base.off + 1 + uint(h.Intn(int(base.length)-1))
			f.length = 40
			f.ulen = 0
			f.state = "damaged"
			f.recover = false
			f.stored = nil
			req = append(req, &f)
		}
	}
	h.Rng.Shuffle(len(req), func(i, j int) { req[i], req[j] = req[j], req[i] })

	useFB := h.Intn(4) > 0
	var dlfail []int
	if h.Intn(4) == 0 {
		dlfail = append(dlfail, h.Intn(3))
		if h.Bool() {
			dlfail = append(dlfail, h.Intn(5))
		}
		sort.Ints(dlfail)
	}
	var cbfail []int
	if len(req) > 0 && h.Intn(8) == 0 {
		cbfail = append(cbfail, req[h.Intn(len(req))].idx)
	}
	propagate := h.Intn(3) == 0

	h.Case("pack")
	h.Rec("kind", kind)
	byID := map[restic.ID]*c43Ent{}
	var blobs pack.Blobs
	for _, e := range req {
		h.Rec("ent", Itoa(e.idx), U64(uint64(e.off)), U64(uint64(e.length)), e.state, B(e.recover))
		byID[e.id] = e
		blobs = append(blobs, pack.Blob{BlobHandle: restic.BlobHandle{ID: e.id, Type: restic.DataBlob},
			Offset: e.off, Length: e.length, UncompressedLength: e.ulen})
	}
	if useFB {
		h.Rec("fb", "fn")
	} else {
		h.Rec("fb", "nil")
	}
	h.Rec("dlfail", c43Join(dlfail))
	h.Rec("cbfail", c43Join(cbfail), B(propagate))

	nLoad := 0
	beLoad := func(ctx context.Context, hd backend.Handle, length int, offset int64, fn func(rd io.Reader) error) error {
		n := nLoad
		nLoad++
		for _, f := range dlfail {
			if f == n {
				h.Rec("load", I64(offset), Itoa(length), "fail")
				return errC43Download
			}
		}
		if length > 80<<20 || length < 0 {
			h.Rec("load", I64(offset), Itoa(length), "fail")
			return fmt.Errorf("c43: refusing to serve %d bytes", length)
		}
		h.Rec("load", I64(offset), Itoa(length), "ok")
		return fn(bytes.NewReader(p.read(offset, length)))
	}
	var loadBlob func(ctx context.Context, bh restic.BlobHandle, buf []byte) ([]byte, error)
	if useFB {
		loadBlob = func(ctx context.Context, bh restic.BlobHandle, buf []byte) ([]byte, error) {
			if e, ok := byID[bh.ID]; ok && e.recover {
				return append([]byte(nil), e.plain...), nil
			}
			return nil, errors.New("c43: no other copy")
		}
	}
	handle := func(bh restic.BlobHandle, buf []byte, err error) error {
		e := byID[bh.ID]
		idx := -1
		if e != nil {
			idx = e.idx
		}
		if err != nil {
			h.Rec("cb", Itoa(idx), "err")
		} else {
			h.Rec("cb", Itoa(idx), "ok", B(restic.Hash(buf) == bh.ID))
		}
		for _, f := range cbfail {
			if f == idx {
				return errC43Callback
			}
		}
		if propagate && err != nil {
			return fmt.Errorf("c43cb: %w", err)
		}
		return nil
	}
	var err error
	panicked, pmsg := Protect(func() {
		err = repository.VerifC43StreamPack(context.Background(), beLoad, loadBlob, key, restic.ID{}, blobs, handle)
	})
	if panicked {
		h.Rec("res", "panic", HexS(pmsg))
	} else {
		h.Rec("res", c43Class(err, false)...)
	}
	h.End()
}

// failing backend: all loads of pack files listed in `fail` return an error
type c43FailBackend struct {
	backend.Backend
	fail map[string]bool
}

func (b *c43FailBackend) Load(ctx context.Context, h backend.Handle, length int, offset int64, fn func(rd io.Reader) error) error {
	if h.Type == backend.PackFile && b.fail[h.Name] {
		return errC43Download
	}
	return b.Backend.Load(ctx, h, length, offset, fn)
}

func c43RepoCase(h *H) {
	ctx := context.Background()
	inner := repository.TestBackend(TB)
	fb := &c43FailBackend{Backend: inner, fail: map[string]bool{}}
	// the two sessions write with different compression settings, so the copies of one blob have
	// different stored lengths (like copies written by `--compression off` / v1-era clients)
	optsA, optsB := repository.Options{Compression: repository.CompressionOff}, repository.Options{Compression: repository.CompressionFastest}
	if h.Bool() {
		optsA, optsB = optsB, optsA
	}
	repo, _ := repository.TestRepositoryWithBackend(TB, fb, 0, optsA)
	n := 2 + h.Intn(8)
	var plains [][]byte
	for i := 0; i < n; i++ {
		sz := 1 + h.Intn(300)
		p := append([]byte(fmt.Sprintf("c43r-%d-", i)), h.Bytes(sz)...)
		if h.Intn(3) > 0 { // compressible: the compressed copy is clearly shorter
			p = append(p, bytes.Repeat([]byte{byte('a' + i)}, 50+h.Intn(400))...)
		}
		plains = append(plains, p)
	}
	save := func(idxs []int, dup bool) []restic.ID {
		ids := make([]restic.ID, len(idxs))
		err := repo.WithBlobUploader(ctx, func(ctx context.Context, up restic.BlobSaverWithAsync) error {
			for j, i := range idxs {
				id, _, _, err := up.SaveBlob(ctx, restic.DataBlob, plains[i], restic.ID{}, dup)
				if err != nil {
					return err
				}
				ids[j] = id
			}
			return nil
		})
		if err != nil {
			panic(err)
		}
		return ids
	}
	all := make([]int, n)
	for i := range all {
		all[i] = i
	}
	ids := save(all, false)
	packA := repository.VerifC43Lookup(repo, restic.BlobHandle{Type: restic.DataBlob, ID: ids[0]})[0].PackID()
	// second handle on the same backend with the other compression setting
	repoB, errB := repository.New(fb, optsB)
	if errB != nil {
		panic(errB)
	}
	if err := repoB.SearchKey(ctx, "geheim", 5, ""); err != nil {
		panic(err)
	}
	if err := repoB.LoadIndex(ctx, restic.NoopTerminalCounterFactory); err != nil {
		panic(err)
	}
	repo = repoB
	// duplicates of some blobs in a second pack
	var dupIdx []int
	for i := 0; i < n; i++ {
		if h.Intn(2) == 0 {
			dupIdx = append(dupIdx, i)
		}
	}
	p1 := packA
	if len(dupIdx) > 0 {
		save(dupIdx, true)
		if h.Intn(3) == 0 {
			// stream from (and damage) the pack of the second session instead
			for _, pb := range repository.VerifC43Lookup(repo, restic.BlobHandle{Type: restic.DataBlob, ID: ids[dupIdx[0]]}) {
				if pb.PackID() != packA {
					p1 = pb.PackID()
				}
			}
		}
	}
	// an extra blob that lives only in another pack (requesting it from P1 must fail)
	other := save2(repo, append([]byte("c43r-elsewhere-"), h.Bytes(20)...))
	hasDup := map[int]bool{}
	for i := 0; i < n; i++ {
		for _, pb := range repository.VerifC43Lookup(repo, restic.BlobHandle{Type: restic.DataBlob, ID: ids[i]}) {
			if pb.PackID() != p1 {
				hasDup[i] = true
			}
		}
	}

	type ent struct {
		off, length uint
		inP1        bool
	}
	ents := make([]ent, n)
	for i := 0; i < n; i++ {
		for _, pb := range repository.VerifC43Lookup(repo, restic.BlobHandle{Type: restic.DataBlob, ID: ids[i]}) {
			if pb.PackID() == p1 {
				ents[i] = ent{pb.Blob.Offset, pb.Blob.Length, true}
			}
		}
	}
	// damage some blobs inside P1 (flip one byte of the blob's ciphertext)
	hd := backend.Handle{Type: backend.PackFile, Name: p1.String()}
	var packBytes []byte
	if err := inner.Load(ctx, hd, 0, 0, func(rd io.Reader) error {
		var e error
		packBytes, e = io.ReadAll(rd)
		return e
	}); err != nil {
		panic(err)
	}
	damaged := map[int]bool{}
	for i := 0; i < n; i++ {
		if ents[i].inP1 && h.Intn(3) == 0 {
			damaged[i] = true
			packBytes[int(ents[i].off)+h.Intn(int(ents[i].length))] ^= 0x20
		}
	}
	if len(damaged) > 0 {
		if err := inner.Remove(ctx, hd); err != nil {
			panic(err)
		}
		if err := inner.Save(ctx, hd, backend.NewByteReader(packBytes, inner.Hasher())); err != nil {
			panic(err)
		}
	}
	failP1 := h.Intn(4) == 0
	if failP1 {
		fb.fail[p1.String()] = true
	}
	// request
	var req []int
	for i := 0; i < n; i++ {
		if ents[i].inP1 && h.Intn(4) > 0 {
			req = append(req, i)
		}
	}
	if len(req) == 0 {
		for i := 0; i < n; i++ {
			if ents[i].inP1 {
				req = append(req, i)
				break
			}
		}
	}
	reqOther := h.Intn(10) == 0
	if h.Intn(12) == 0 {
		req = append(req, req[h.Intn(len(req))])
	}
	h.Rng.Shuffle(len(req), func(i, j int) { req[i], req[j] = req[j], req[i] })
	var cbfail []int
	if h.Intn(8) == 0 {
		cbfail = append(cbfail, req[h.Intn(len(req))])
	}
	propagate := h.Intn(3) == 0

	h.Case("repo")
	h.Rec("kind", "repo")
	idxOf := map[restic.ID]int{}
	var handles []restic.BlobHandle
	for _, i := range req {
		st := "good"
		if damaged[i] {
			st = "damaged"
		}
		// LoadBlob (the fallback) can deliver if a copy in another pack exists, or the copy in
		// P1 is intact and P1 can still be read
		rec := hasDup[i] || (!damaged[i] && !failP1)
		h.Rec("ent", Itoa(i), U64(uint64(ents[i].off)), U64(uint64(ents[i].length)), st, B(rec))
		idxOf[ids[i]] = i
		handles = append(handles, restic.BlobHandle{Type: restic.DataBlob, ID: ids[i]})
	}
	if reqOther {
		h.Rec("notinpack", "900")
		idxOf[other] = 900
		pos := h.Intn(len(handles) + 1)
		handles = append(handles[:pos], append([]restic.BlobHandle{{Type: restic.DataBlob, ID: other}}, handles[pos:]...)...)
	}
	h.Rec("fb", "fn")
	if failP1 {
		h.Rec("dlfail", "all")
	} else {
		h.Rec("dlfail", "-")
	}
	h.Rec("cbfail", c43Join(cbfail), B(propagate))
	handle := func(bh restic.BlobHandle, buf []byte, err error) error {
		idx, ok := idxOf[bh.ID]
		if !ok {
			idx = -1
		}
		if err != nil {
			h.Rec("cb", Itoa(idx), "err")
		} else {
			h.Rec("cb", Itoa(idx), "ok", B(restic.Hash(buf) == bh.ID))
		}
		for _, f := range cbfail {
			if f == idx {
				return errC43Callback
			}
		}
		if propagate && err != nil {
			return fmt.Errorf("c43cb: %w", err)
		}
		return nil
	}
	var err error
	panicked, pmsg := Protect(func() {
		err = repo.LoadBlobsFromPack(ctx, p1, handles, handle)
	})
	if panicked {
		h.Rec("res", "panic", HexS(pmsg))
	} else {
		h.Rec("res", c43Class(err, false)...)
	}
	// LoadBlob itself (the fallback across packs) for every requested blob
	seen := map[int]bool{}
	for _, i := range req {
		if seen[i] {
			continue
		}
		seen[i] = true
		bh := restic.BlobHandle{Type: restic.DataBlob, ID: ids[i]}
		for _, pb := range repository.VerifC43Lookup(repo, bh) {
			st := "good"
			if pb.PackID() == p1 && (damaged[i] || failP1) {
				st = "damaged"
			}
			h.Rec("copy", Itoa(i), U64(uint64(pb.Blob.Length)), st)
		}
		var buf []byte
		var lerr error
		lp, _ := Protect(func() { buf, lerr = repo.LoadBlob(ctx, bh, nil) })
		switch {
		case lp:
			h.Rec("lb", Itoa(i), "panic")
		case lerr != nil:
			h.Rec("lb", Itoa(i), "err", HexS(lerr.Error()))
		default:
			h.Rec("lb", Itoa(i), "ok", B(restic.Hash(buf) == ids[i]))
		}
	}
	h.End()
}

func save2(repo *repository.Repository, plain []byte) restic.ID {
	var id restic.ID
	err := repo.WithBlobUploader(context.Background(), func(ctx context.Context, up restic.BlobSaverWithAsync) error {
		var err error
		id, _, _, err = up.SaveBlob(ctx, restic.DataBlob, plain, restic.ID{}, false)
		return err
	})
	if err != nil {
		panic(err)
	}
	return id
}

func streamC43(h *H) {
	repo, _ := NewRepo(0, repository.Options{})
	key := repo.Key()
	n := h.N(600, 6000)
	for i := 0; i < n; i++ {
		if i%4 == 3 {
			c43RepoCase(h)
		} else {
			c43PackCase(h, key)
		}
	}
}
