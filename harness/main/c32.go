//go:build verif

package main

// C32 — copy transfers snapshots faithfully and idempotently.
// Two real repositories on two in-memory backends (different passwords, versions, chunker
// polynomials; destination empty, pre-populated by an earlier copy, or holding its own backup of
// overlapping data). The real `restic copy --from-repo mem2:r [selection]` runs through the CLI:
// once recorded (every destination mutation with decoded content), once more (idempotency: no
// save), and from the same initial destination state once per sampled crash prefix (CrashAfter),
// each crashed state being checked with the real `check --read-data`.

import (
	"context"
	"encoding/json"
	"fmt"
	"os"
	"sort"
	"strings"

	"github.com/restic/restic/internal/backend"
	"github.com/restic/restic/internal/backend/mem"
	"github.com/restic/restic/internal/data"
	"github.com/restic/restic/internal/repository"
	"github.com/restic/restic/internal/restic"
)

var _ = verifRegister("C32", streamC32)

const c32SrcPw = "geheim"
const c32DstPw = "andersgeheim"

func c32SnapToks(sn *data.Snapshot) []string {
	orig := "-"
	if sn.Original != nil {
		orig = a16Short(*sn.Original)
	}
	parent := "-"
	if sn.Parent != nil {
		parent = a16Short(*sn.Parent)
	}
	tree := "-"
	if sn.Tree != nil {
		tree = a16Short(*sn.Tree)
	}
	return []string{a16Short(*sn.ID()), tree, orig, parent,
		I64(sn.Time.UnixNano()), HexS(sn.Hostname), HexS(sn.Username), Itoa(int(sn.UID)), Itoa(int(sn.GID)),
		HexS(strings.Join(sn.Paths, "\x00")), HexS(strings.Join(sn.Tags, "\x00")), HexS(strings.Join(sn.Excludes, "\x00")),
		Itoa(len(sn.Paths)), Itoa(len(sn.Tags)), Itoa(len(sn.Excludes))}
}

// c32Reach lists every blob handle reachable from a tree (own walker: LoadTree + recursion).
func c32Reach(repo *repository.Repository, root restic.ID) []c34Handle {
	ctx := context.Background()
	seen := map[c34Handle]bool{}
	var out []c34Handle
	var walk func(id restic.ID)
	walk = func(id restic.ID) {
		k := c34Handle{1, id}
		if seen[k] {
			return
		}
		seen[k] = true
		out = append(out, k)
		it, err := data.LoadTree(ctx, repo, id)
		if err != nil {
			panic(fmt.Sprintf("c32Reach: tree %v: %v", id, err))
		}
		for item := range it {
			if item.Error != nil {
				panic(item.Error)
			}
			n := item.Node
			for _, c := range n.Content {
				kk := c34Handle{0, c}
				if !seen[kk] {
					seen[kk] = true
					out = append(out, kk)
				}
			}
			if n.Type == data.NodeTypeDir && n.Subtree != nil {
				walk(*n.Subtree)
			}
		}
	}
	walk(root)
	return out
}

func c32HandleToks(l []c34Handle) []string {
	var r []string
	for _, k := range l {
		r = append(r, Itoa(k.Typ)+":"+a16Short(k.ID))
	}
	return r
}

// c32IndexedHandles: handles the decodable index files of the backend list, per pack.
func c32IndexedHandles(repo *repository.Repository, be backend.Backend) []c34Handle {
	seen := map[c34Handle]bool{}
	var out []c34Handle
	for _, ix := range a16Indexes(repo, be) {
		for _, p := range ix.Packs {
			for _, e := range p.Entries {
				k := c34Handle{e.Typ, e.ID}
				if !seen[k] {
					seen[k] = true
					out = append(out, k)
				}
			}
		}
	}
	return out
}

type c32Setup struct {
	src       BeState
	dst       BeState
	labels    []string
	selection []string // extra args of copy
	fullIdx   bool     // index.Full overridden: an index file after every pack
}

// c32Build creates the source and the initial destination state.
func c32Build(h *H) c32Setup {
	var s c32Setup
	srcV, dstV := "2", "2"
	if h.Intn(4) == 0 {
		srcV = "1"
		s.labels = append(s.labels, "src-v1")
	}
	if h.Intn(4) == 0 {
		dstV = "1"
		s.labels = append(s.labels, "dst-v1")
	}
	srcBe := mem.New()
	src := &CLI{Be: srcBe, Password: c32SrcPw}
	src.MustRun("init", "--repository-version", srcV)
	t := a16NewTree(h)
	defer t.Close()
	nb := 2 + h.Intn(3)
	hosts := []string{"h1", "h2"}
	for i := 0; i < nb; i++ {
		t.Mutate(2 + h.Intn(5))
		args := []string{"backup", "--pack-size", "4", "--host", h.Pick(hosts)}
		if h.Intn(2) == 0 {
			args = append(args, "--tag", h.Pick([]string{"a", "b", "a,b", "a,a"}))
		}
		if h.Intn(4) == 0 {
			args = append(args, "--exclude", "f00"+Itoa(h.Intn(9)))
		}
		src.MustRun(append(args, t.Dir)...)
	}
	// a rewritten source snapshot (carries Original)
	if h.Intn(3) == 0 {
		sns := a16Snapshots(OpenRepoOn(srcBe, c32SrcPw))
		src.MustRun("tag", "--add", "rw", sns[h.Intn(len(sns))].ID().String())
		s.labels = append(s.labels, "src-has-original")
	}

	// malformed-but-decodable input: a snapshot whose "original" field is the null ID
	if h.Intn(8) == 0 {
		repo := OpenRepoOn(srcBe, c32SrcPw)
		sns := a16Snapshots(repo)
		sn := *sns[h.Intn(len(sns))]
		sn.Original = &restic.ID{}
		sn.Hostname = "nullorig"
		if _, err := data.SaveSnapshot(context.Background(), repo, &sn); err != nil {
			panic(err)
		}
		s.labels = append(s.labels, "src-original-is-null-id")
	}

	dstBe := mem.New()
	dst := &CLI{Be: dstBe, Password: c32DstPw}
	both := &CLI2{Be: dstBe, Be2: srcBe, Password: c32DstPw, Password2: c32SrcPw}
	if h.Intn(3) == 0 {
		r := both.Run("init", "--from-repo", "mem2:r", "--copy-chunker-params", "--repository-version", dstV)
		if r.Err != nil {
			panic(fmt.Sprintf("init --copy-chunker-params: %v %s", r.Err, r.Stderr))
		}
		s.labels = append(s.labels, "same-polynomial")
	} else {
		dst.MustRun("init", "--repository-version", dstV)
		s.labels = append(s.labels, "different-polynomial")
	}
	switch h.Intn(4) {
	case 0:
		sns := a16Snapshots(OpenRepoOn(srcBe, c32SrcPw))
		r := both.Run("copy", "--from-repo", "mem2:r", sns[h.Intn(len(sns))].ID().String())
		if r.Err != nil {
			panic(fmt.Sprintf("pre-copy: %v %s", r.Err, r.Stderr))
		}
		s.labels = append(s.labels, "dst-has-earlier-copy")
	case 1:
		dst.MustRun("backup", "--pack-size", "4", "--host", "dsthost", t.Dir)
		s.labels = append(s.labels, "dst-has-overlapping-backup")
	case 2:
		t2 := a16NewTree(h)
		t2.Mutate(3)
		dst.MustRun("backup", "--pack-size", "4", "--host", "dsthost", t2.Dir)
		t2.Close()
		s.labels = append(s.labels, "dst-has-unrelated-backup")
	default:
		s.labels = append(s.labels, "dst-empty")
	}
	// selection
	sns := a16Snapshots(OpenRepoOn(srcBe, c32SrcPw))
	switch h.Intn(5) {
	case 0:
		s.selection = []string{sns[h.Intn(len(sns))].ID().String()}
		s.labels = append(s.labels, "select-one-id")
	case 1:
		s.selection = []string{"--host", h.Pick(hosts)}
		s.labels = append(s.labels, "select-host")
	case 2:
		s.selection = []string{"--tag", "a"}
		s.labels = append(s.labels, "select-tag")
	default:
		s.labels = append(s.labels, "select-all")
	}
	if h.Intn(4) != 0 {
		s.fullIdx = true
		s.labels = append(s.labels, "index-after-every-pack")
	}
	a16RemoveLocks(srcBe)
	a16RemoveLocks(dstBe)
	s.src = DumpBackend(srcBe)
	s.dst = DumpBackend(dstBe)
	return s
}

// c32SetFull makes every index "full" (an index file is written after each stored pack, the
// stand-in for the intermediate indexes of a large copy) when on is set.
func c32SetFull(on bool) func() {
	if !on {
		return func() {}
	}
	return c33SetFull(0)
}

// c32Resume runs copy again (no faults) on a crashed destination state and records what it did.
func c32Resume(h *H, s c32Setup, srcBe *mem.MemoryBackend, d *mem.MemoryBackend, args []string, k, variant string) {
	if variant == "repair-index" {
		restore := c32SetFull(s.fullIdx)
		ri := (&CLI{Be: d, Password: c32DstPw}).Run("repair", "index")
		restore()
		a16RemoveLocks(d)
		if ri.Err != nil {
			h.Rec("resume", k, variant, "repair-index-failed", "-", HexS(a16OneLine(ri.Stderr)))
			return
		}
	}
	dr := OpenRepoOn(d, c32DstPw)
	h.Rec("rhas", append([]string{k, variant}, c32HandleToks(c32IndexedHandles(dr, d))...)...)
	for _, sn := range a16Snapshots(dr) {
		h.Rec("rs0", append([]string{k, variant}, c32SnapToks(sn)...)...)
	}
	before := map[string]bool{}
	for _, p := range a16Packs(dr, d) {
		before[p.ID.String()] = true
	}
	cc := &CLI2{Be: d, Be2: srcBe, Password: c32DstPw, Password2: c32SrcPw}
	restore := c32SetFull(s.fullIdx)
	rr := cc.Run(args...)
	restore()
	a16RemoveLocks(d)
	a16RemoveLocks(srcBe)
	dr = OpenRepoOn(d, c32DstPw)
	var up []c34Handle
	for _, p := range a16Packs(dr, d) {
		if !before[p.ID.String()] {
			for _, e := range p.Entries {
				up = append(up, c34Handle{e.Typ, e.ID})
			}
		}
	}
	h.Rec("rup", append([]string{k, variant}, c32HandleToks(up)...)...)
	for _, sn := range a16Snapshots(dr) {
		h.Rec("rs1", append([]string{k, variant}, c32SnapToks(sn)...)...)
	}
	ck := (&CLI{Be: d, Password: c32DstPw}).Run("check", "--read-data")
	a16RemoveLocks(d)
	h.Rec("resume", k, variant, a16ErrKind(rr), a16ErrKind(ck), HexS(a16OneLine(fmt.Sprint(rr.Err)+"|"+ck.Stderr)))
}

func streamC32(h *H) {
	n := h.N(8, 64)
	for i := 0; i < n; i++ {
		c32Case(h, c32Build(h))
	}
}

func c32Case(h *H, s c32Setup) {
	srcBe := LoadBackend(s.src)
	dstBe := LoadBackend(s.dst)
	srcRepo := OpenRepoOn(srcBe, c32SrcPw)
	if err := srcRepo.LoadIndex(context.Background(), restic.NoopTerminalCounterFactory); err != nil {
		panic(err)
	}
	dstRepo0 := OpenRepoOn(dstBe, c32DstPw)

	h.Case("copy")
	sort.Strings(s.labels)
	h.Rec("lbl", s.labels...)
	h.Rec("sel", HexList(s.selection)...)
	srcSns := a16Snapshots(srcRepo)
	for _, sn := range srcSns {
		h.Rec("src", c32SnapToks(sn)...)
		h.Rec("reach", append([]string{a16Short(*sn.Tree)}, c32HandleToks(c32Reach(srcRepo, *sn.Tree))...)...)
	}
	for _, sn := range a16Snapshots(dstRepo0) {
		h.Rec("dst0", c32SnapToks(sn)...)
	}
	// which source snapshots the selection arguments name (real snapshot filter, C24's subject)
	lst := (&CLI{Be: srcBe, Password: c32SrcPw}).Run(append([]string{"snapshots", "--json"}, s.selection...)...)
	a16RemoveLocks(srcBe)
	var listed []struct {
		ID string `json:"id"`
	}
	if err := json.Unmarshal([]byte(lst.Stdout), &listed); err != nil {
		panic(fmt.Sprintf("snapshots --json: %v %q", err, lst.Stdout))
	}
	var req []string
	for _, l := range listed {
		req = append(req, l.ID[:16])
	}
	h.Rec("requested", req...)
	h.Rec("dsthas", c32HandleToks(c32IndexedHandles(dstRepo0, dstBe))...)
	dstPacks0 := map[string]bool{}
	for _, p := range a16Packs(dstRepo0, dstBe) {
		dstPacks0[p.ID.String()] = true
	}

	// run 1, recorded
	rec := NewRecBackend(dstBe)
	cli := &CLI2{Be: rec, Be2: srcBe, Password: c32DstPw, Password2: c32SrcPw}
	args := append([]string{"copy", "--from-repo", "mem2:r"}, s.selection...)
	restoreFull := c32SetFull(s.fullIdx)
	r := cli.Run(args...)
	restoreFull()
	h.Rec("res", a16ErrKind(r), HexS(a16OneLine(fmt.Sprint(r.Err)+"|"+r.Stderr)))
	totalMut := rec.Mutations()
	a16RemoveLocks(dstBe)
	a16RemoveLocks(srcBe)
	dstRepo := OpenRepoOn(dstBe, c32DstPw)
	packs := map[string]a16PackInfo{}
	for _, p := range a16Packs(dstRepo, dstBe) {
		packs[p.ID.String()] = p
	}
	idxs := map[string]a16IdxInfo{}
	for _, ix := range a16Indexes(dstRepo, dstBe) {
		idxs[ix.ID.String()] = ix
	}
	snaps := map[string]*data.Snapshot{}
	for _, sn := range a16Snapshots(dstRepo) {
		snaps[sn.ID().String()] = sn
	}
	for _, e := range rec.Events {
		if e.Op != "save" && e.Op != "remove" {
			continue
		}
		if e.Type == "lock" {
			continue
		}
		st := "ok"
		if e.Err {
			st = "fail"
		}
		short := e.Name
		if len(short) > 16 {
			short = short[:16]
		}
		toks := []string{e.Op, e.Type, short, st}
		if e.Op == "save" && !e.Err {
			switch e.Type {
			case "data":
				if p, ok := packs[e.Name]; ok && p.HdrOK {
					for _, en := range p.Entries {
						toks = append(toks, Itoa(en.Typ)+":"+a16Short(en.ID))
					}
				} else {
					toks = append(toks, "UNREADABLE")
				}
			case "index":
				if ix, ok := idxs[e.Name]; ok && ix.OK {
					for _, p := range ix.Packs {
						for _, en := range p.Entries {
							toks = append(toks, a16Short(p.Pack)+"/"+Itoa(en.Typ)+":"+a16Short(en.ID))
						}
					}
				} else {
					toks = append(toks, "UNREADABLE")
				}
			case "snapshot":
				if sn, ok := snaps[e.Name]; ok {
					toks = append(toks, c32SnapToks(sn)...)
				} else {
					toks = append(toks, "UNREADABLE")
				}
			}
		}
		h.Rec("tr", toks...)
	}
	for _, sn := range a16Snapshots(dstRepo) {
		h.Rec("dst1", c32SnapToks(sn)...)
	}
	chk := (&CLI{Be: dstBe, Password: c32DstPw}).Run("check", "--read-data")
	h.Rec("check1", a16ErrKind(chk), HexS(a16OneLine(chk.Stderr)))
	a16RemoveLocks(dstBe)

	// run 2: idempotency
	if r.Err == nil {
		rec2 := NewRecBackend(dstBe)
		cli2 := &CLI2{Be: rec2, Be2: srcBe, Password: c32DstPw, Password2: c32SrcPw}
		restoreFull = c32SetFull(s.fullIdx)
		r2 := cli2.Run(args...)
		restoreFull()
		h.Rec("res2", a16ErrKind(r2), HexS(a16OneLine(fmt.Sprint(r2.Err)+"|"+r2.Stderr)))
		for _, e := range rec2.Events {
			if (e.Op == "save" || e.Op == "remove") && e.Type != "lock" {
				h.Rec("tr2", e.Op, e.Type)
			}
		}
		a16RemoveLocks(dstBe)
		a16RemoveLocks(srcBe)
		for _, sn := range a16Snapshots(OpenRepoOn(dstBe, c32DstPw)) {
			h.Rec("dst2", c32SnapToks(sn)...)
		}
	}

	// crash prefixes from the same initial destination; every crashed state is checked, then the
	// copy is run again on it without faults (plain, and — when the crash left packs the index
	// does not know — also after `repair index`), and the destination is checked again: the
	// resumed copy must heal the destination whatever part of the first run reached it.
	if r.Err == nil && totalMut > 0 {
		var ks []int
		if totalMut <= 12 || h.Thorough() {
			for k := 0; k < totalMut; k++ {
				ks = append(ks, k)
			}
		} else {
			seen := map[int]bool{}
			for len(ks) < 8 {
				k := h.Intn(totalMut)
				if !seen[k] {
					seen[k] = true
					ks = append(ks, k)
				}
			}
			sort.Ints(ks)
		}
		h.Rec("mutations", Itoa(totalMut))
		for _, k := range ks {
			d := LoadBackend(s.dst)
			rc := NewRecBackend(d)
			rc.CrashAfter = k
			cc := &CLI2{Be: rc, Be2: srcBe, Password: c32DstPw, Password2: c32SrcPw}
			restore := c32SetFull(s.fullIdx)
			rr := cc.Run(args...)
			restore()
			a16RemoveLocks(d)
			a16RemoveLocks(srcBe)
			crashed := DumpBackend(d)
			nsn := len(a16Snapshots(OpenRepoOn(d, c32DstPw)))
			ck := (&CLI{Be: d, Password: c32DstPw}).Run("check", "--read-data")
			a16RemoveLocks(d)
			h.Rec("crash", Itoa(k), a16ErrKind(rr), a16ErrKind(ck), Itoa(nsn), HexS(a16OneLine(ck.Stderr)))
			if rr.Err == nil {
				continue // the run completed before the crash point
			}
			// packs the crashed destination's index does not know
			dr := OpenRepoOn(d, c32DstPw)
			indexedPacks := map[string]bool{}
			for _, ix := range a16Indexes(dr, d) {
				for _, p := range ix.Packs {
					indexedPacks[p.Pack.String()] = true
				}
			}
			orphans := false
			for _, p := range a16Packs(dr, d) {
				if !indexedPacks[p.ID.String()] {
					orphans = true
				}
			}
			variants := []string{"plain"}
			if orphans {
				variants = append(variants, "repair-index")
			}
			for _, v := range variants {
				c32Resume(h, s, srcBe, LoadBackend(crashed), args, Itoa(k), v)
			}
		}
	}
	h.End()
	_ = os.Stderr
}
