//go:build verif

package main

// C01 — backup then restore reproduces the source tree. Trees are created on the real file
// system (RESTIC_VERIF_TMP) from a generated description, backed up and restored through the real
// CLI (`backup`, `restore`) on an in-memory repository, for a drawn configuration
// (format version × compression × pack size × read concurrency × sparse restore). Both trees are
// walked with lstat/readlink/read/listxattr; the snapshot's nodes are dumped as well.
// Records:
//   cfg <version> <compression> <packsize> <readconc> <sparse> <caps>
//   src|dst <hexpath> <kind> <mode8> <uid> <gid> <msec> <mnsec> <size> <sha256|-> <hextarget|-> <rdev> <dev:ino> <nlink> <xattrs|->
//   snap <hexpath> <kind> <mode8> <uid> <gid> <msec> <mnsec> <size> <nblobs> <sum-of-blob-sizes> <hextarget|-> <device> <deviceid:inode> <links> <xattrs|->
//   res <backup-exit> <restore-exit>
// paths: components joined by '/', hex; the tree root is "-". xattrs: hexname:hexvalue,… sorted.
import (
	"context"
	"crypto/sha256"
	"encoding/hex"
	"fmt"
	"io"
	"os"
	"path/filepath"
	"sort"
	"strings"
	"syscall"
	"time"

	"github.com/pkg/xattr"
	"github.com/restic/restic/internal/backend/mem"
	"github.com/restic/restic/internal/data"
	"github.com/restic/restic/internal/repository"
	"github.com/restic/restic/internal/restic"
	"golang.org/x/sys/unix"
)

var _ = verifRegister("C01", streamC01)

type c01Ent struct {
	name     []byte
	kind     string // file dir symlink dev chardev fifo socket hardlink
	mode     uint32 // permission + setuid/setgid/sticky (unix bits)
	uid, gid int
	msec     int64
	mnsec    int64
	xattrs   map[string][]byte
	content  []byte
	holeSize int64 // sparse: truncate to this size after writing content at the front
	target   []byte
	rdev     uint64
	linkTo   string // absolute path of the file this hard link points to
	children []*c01Ent
}

type c01Caps struct{ mknod, chown, xattr, xattrBadUTF8, farMtime, sock, trusted bool }

func c01Probe() (c c01Caps) {
	d := MkTemp("c01probe-")
	defer os.RemoveAll(d)
	p := filepath.Join(d, "f")
	_ = os.WriteFile(p, []byte("x"), 0600)
	c.mknod = unix.Mknod(filepath.Join(d, "c"), unix.S_IFCHR|0600, int(unix.Mkdev(1, 3))) == nil &&
		unix.Mknod(filepath.Join(d, "b"), unix.S_IFBLK|0600, int(unix.Mkdev(7, 0))) == nil
	c.sock = unix.Mknod(filepath.Join(d, "s"), unix.S_IFSOCK|0600, 0) == nil
	c.chown = os.Lchown(p, 12345, 54321) == nil
	c.xattr = xattr.LSet(p, "user.probe", []byte("v")) == nil
	c.xattrBadUTF8 = c.xattr && xattr.LSet(p, "user.x\xff", []byte("v")) == nil
	// trusted.* attributes (root only) are the ones symlinks, fifos and device nodes can carry
	sl := filepath.Join(d, "sl")
	ff := filepath.Join(d, "ff")
	c.trusted = os.Symlink("nowhere", sl) == nil && xattr.LSet(sl, "trusted.probe", []byte("v")) == nil &&
		unix.Mkfifo(ff, 0600) == nil && xattr.LSet(ff, "trusted.probe", []byte("v")) == nil
	far := time.Date(2300, 1, 1, 0, 0, 0, 5, time.UTC)
	ts := []unix.Timespec{{Sec: far.Unix(), Nsec: 5}, {Sec: far.Unix(), Nsec: 5}}
	if unix.UtimesNanoAt(unix.AT_FDCWD, p, ts, unix.AT_SYMLINK_NOFOLLOW) == nil {
		var st unix.Stat_t
		c.farMtime = unix.Lstat(p, &st) == nil && st.Mtim.Sec == far.Unix()
	}
	return
}

func (c c01Caps) String() string {
	var l []string
	for _, kv := range []struct {
		k string
		v bool
	}{{"mknod", c.mknod}, {"chown", c.chown}, {"xattr", c.xattr}, {"xattrbad", c.xattrBadUTF8}, {"farmtime", c.farMtime}, {"sock", c.sock}, {"trusted", c.trusted}} {
		if kv.v {
			l = append(l, kv.k)
		}
	}
	if len(l) == 0 {
		return "none"
	}
	return strings.Join(l, "+")
}

var c01NamePool = [][]byte{
	[]byte("plain"), []byte("with space"), []byte(" lead"), []byte("trail "), []byte("-rf"), []byte("--help"),
	[]byte("quote\"dbl"), []byte("quote'sgl"), []byte("back\\slash"), []byte("new\nline"), []byte("tab\there"),
	[]byte("ctrl\x01\x02\x1b"), []byte("del\x7f"), []byte("bad\xff\xfeutf8"), []byte("\xc3\x28"), []byte("\xe2\x82"),
	[]byte("caf\xc3\xa9"), []byte("cafe\xcc\x81"), []byte("日本語"), []byte("*glob?[a-z]"), []byte("~tilde"), []byte("..."),
	[]byte(".hidden"), []byte("$var"), []byte("%41"), []byte("a:b"), []byte("\\x41"), []byte("\r"), []byte("\xed\xa0\x80"),
	[]byte("{}"), []byte("`cmd`"), []byte("#hash"), []byte("é"), []byte(" ls"), []byte("A"), []byte("a"),
}

func (h *H) c01Name(used map[string]bool) []byte {
	for {
		var n []byte
		switch h.Intn(5) {
		case 0, 1:
			n = append([]byte(nil), c01NamePool[h.Intn(len(c01NamePool))]...)
		case 2:
			l := 1 + h.Intn(12)
			n = h.Bytes(l)
		case 3:
			n = []byte(fmt.Sprintf("f%d", h.Intn(50)))
		default:
			l := 100 + h.Intn(156) // long names, up to 255 bytes
			n = h.Bytes(l)
		}
		for i := range n {
			if n[i] == 0 || n[i] == '/' {
				n[i] = 'x'
			}
		}
		if len(n) > 255 {
			n = n[:255]
		}
		s := string(n)
		if s == "." || s == ".." || s == "" || used[s] {
			continue
		}
		used[s] = true
		return n
	}
}

var c01Times = []int64{0, 1, -1, 999999999, 1000000000, 1700000000, 1<<31 - 1, 1 << 31, 1<<32 + 7, 4000000000, 9000000000, -1000000000, -2000000000, 9214646400 /* 2262-01-01 */}

func (h *H) c01Meta(e *c01Ent, caps c01Caps, isDirOrFile bool) {
	e.mode = uint32(h.Intn(01000))
	switch h.Intn(10) {
	case 0:
		e.mode |= 04000
	case 1:
		e.mode |= 02000
	case 2:
		e.mode |= 01000
	case 3:
		e.mode = 0
	case 4:
		e.mode = 0644
	}
	if caps.chown {
		ids := []int{0, 1, 1000, 65534, 123456, 4000000000}
		e.uid, e.gid = ids[h.Intn(len(ids))], ids[h.Intn(len(ids))]
	}
	if h.Intn(3) == 0 {
		e.msec = c01Times[h.Intn(len(c01Times))]
	} else {
		e.msec = int64(h.Intn(2000000000)) - 100000000
	}
	e.mnsec = []int64{0, 1, 999999999, 123456789, 500000000}[h.Intn(5)]
	if h.Intn(3) == 0 {
		e.mnsec = int64(h.Intn(1000000000))
	}
	if caps.trusted && h.Intn(3) == 0 { // any type, also symlinks, fifos and device nodes
		if e.xattrs == nil {
			e.xattrs = map[string][]byte{}
		}
		names := []string{"trusted.a", "trusted.overlay.opaque", "trusted.with space", "trusted.md5sum"}
		for i := 0; i < 1+h.Intn(2); i++ {
			e.xattrs[names[h.Intn(len(names))]] = h.Bytes(h.Intn(30))
		}
	}
	if caps.xattr && isDirOrFile && h.Intn(3) == 0 {
		if e.xattrs == nil {
			e.xattrs = map[string][]byte{}
		}
		names := []string{"user.a", "user.comment", "user.with space", "user.café", "user.=eq", "user.\"q\"", "user.mime_type", "user.日本", "user.a.b.c", "user.A"}
		for i := 0; i < 1+h.Intn(3); i++ {
			v := h.Bytes(h.Intn(40))
			if h.Intn(5) == 0 {
				v = nil // empty value
			}
			if h.Intn(6) == 0 {
				v = h.Bytes(200 + h.Intn(300))
			}
			e.xattrs[names[h.Intn(len(names))]] = v
		}
	}
}

// c01Gen builds a directory description with at most *budget entries.
func (h *H) c01Gen(depth int, budget *int, caps c01Caps, big *int, files *[]*c01Ent) *c01Ent {
	d := &c01Ent{kind: "dir"}
	h.c01Meta(d, caps, true)
	used := map[string]bool{}
	n := h.Intn(7)
	if depth == 0 {
		n = 3 + h.Intn(8)
	}
	for i := 0; i < n && *budget > 0; i++ {
		*budget--
		e := &c01Ent{name: h.c01Name(used)}
		k := h.Intn(100)
		switch {
		case k < 45:
			e.kind = "file"
			h.c01Meta(e, caps, true)
			switch c := h.Intn(20); {
			case c < 3:
			case c < 13:
				e.content = h.Bytes(1 + h.Intn(5000))
			case c < 15: // sparse
				e.content = h.Bytes(h.Intn(100))
				e.holeSize = int64(100 + h.Intn(1<<20))
			case c < 16:
				e.content = make([]byte, 1+h.Intn(1<<17))
			case c < 17 && *big > 0: // multi-chunk (real chunker: 512 KiB .. 8 MiB)
				*big--
				if h.Bool() {
					e.content = h.Bytes(2<<20 + h.Intn(3<<20))
				} else { // a block repeated: the same non-zero blob occurs at several offsets of one file
					blk := h.Bytes(3<<19 + h.Intn(1<<20))
					e.content = append(append(append([]byte(nil), blk...), blk...), blk[:h.Intn(len(blk))]...)
				}
			case c < 18 && *big > 0: // zeros: cut every 512 KiB, identical chunks (dedup inside one file)
				*big--
				e.content = make([]byte, 1<<20+h.Intn(1<<20))
			default:
				e.content = h.Bytes(1 + h.Intn(200000))
			}
			*files = append(*files, e)
		case k < 62 && depth < 3:
			sub := h.c01Gen(depth+1, budget, caps, big, files)
			sub.name = e.name
			e = sub
		case k < 74:
			e.kind = "symlink"
			h.c01Meta(e, caps, false)
			tg := [][]byte{[]byte("plain"), []byte("../up"), []byte("/abs/olute"), []byte("bad\xffutf8"), []byte("new\nline"), []byte("quote\""), []byte(" "), []byte("//a//b/"), []byte(".")}
			e.target = tg[h.Intn(len(tg))]
			if h.Intn(3) == 0 {
				e.target = h.Bytes(1 + h.Intn(60))
				for i := range e.target {
					if e.target[i] == 0 {
						e.target[i] = 'z'
					}
				}
			}
		case k < 79:
			e.kind = "fifo"
			h.c01Meta(e, caps, false)
		case k < 83 && caps.mknod:
			e.kind = "chardev"
			h.c01Meta(e, caps, false)
			e.rdev = unix.Mkdev(uint32(h.Intn(300)), uint32(h.Intn(70000)))
		case k < 87 && caps.mknod:
			e.kind = "dev"
			h.c01Meta(e, caps, false)
			e.rdev = unix.Mkdev(uint32(h.Intn(300)), uint32(h.Intn(300)))
		case k < 90 && caps.sock:
			e.kind = "socket"
			h.c01Meta(e, caps, false)
		case len(*files) > 0:
			e.kind = "hardlink"
			e.children = []*c01Ent{(*files)[h.Intn(len(*files))]} // resolved to a path at creation
		default:
			e.kind = "file"
			h.c01Meta(e, caps, true)
			*files = append(*files, e)
		}
		d.children = append(d.children, e)
	}
	return d
}

// c01Create materialises the description below path (which must not exist); metadata is applied
// bottom-up afterwards so that directory mtimes survive the creation of their children.
func c01Create(e *c01Ent, path string, where map[*c01Ent]string) error {
	where[e] = path
	switch e.kind {
	case "dir":
		if err := os.Mkdir(path, 0700); err != nil {
			return err
		}
		for _, c := range e.children {
			if err := c01Create(c, filepath.Join(path, string(c.name)), where); err != nil {
				return err
			}
		}
	case "file":
		f, err := os.OpenFile(path, os.O_CREATE|os.O_EXCL|os.O_WRONLY, 0600)
		if err != nil {
			return err
		}
		if _, err := f.Write(e.content); err != nil {
			f.Close()
			return err
		}
		if e.holeSize > 0 {
			if err := f.Truncate(int64(len(e.content)) + e.holeSize); err != nil {
				f.Close()
				return err
			}
		}
		if err := f.Close(); err != nil {
			return err
		}
	case "symlink":
		return os.Symlink(string(e.target), path)
	case "fifo":
		return unix.Mkfifo(path, 0600)
	case "chardev":
		return unix.Mknod(path, unix.S_IFCHR|0600, int(e.rdev))
	case "dev":
		return unix.Mknod(path, unix.S_IFBLK|0600, int(e.rdev))
	case "socket":
		return unix.Mknod(path, unix.S_IFSOCK|0600, 0)
	case "hardlink":
		tgt, ok := where[e.children[0]]
		if !ok {
			return fmt.Errorf("hard link target not created yet")
		}
		return os.Link(tgt, path)
	}
	return nil
}

func c01ApplyMeta(e *c01Ent, path string, caps c01Caps) error {
	if e.kind == "dir" {
		for _, c := range e.children {
			if err := c01ApplyMeta(c, filepath.Join(path, string(c.name)), caps); err != nil {
				return err
			}
		}
	}
	if e.kind == "hardlink" {
		return nil
	}
	if caps.chown {
		if err := os.Lchown(path, e.uid, e.gid); err != nil {
			return fmt.Errorf("lchown %q: %w", path, err)
		}
	}
	for k, v := range e.xattrs {
		if err := xattr.LSet(path, k, v); err != nil {
			return fmt.Errorf("setxattr %q %q: %w", path, k, err)
		}
	}
	if e.kind != "symlink" {
		if err := unix.Chmod(path, e.mode); err != nil {
			return fmt.Errorf("chmod %q: %w", path, err)
		}
	}
	ts := []unix.Timespec{{Sec: e.msec, Nsec: e.mnsec}, {Sec: e.msec, Nsec: e.mnsec}}
	if err := unix.UtimesNanoAt(unix.AT_FDCWD, path, ts, unix.AT_SYMLINK_NOFOLLOW); err != nil {
		return fmt.Errorf("utimes %q: %w", path, err)
	}
	return nil
}

func c01Kind(mode uint32) string {
	switch mode & unix.S_IFMT {
	case unix.S_IFREG:
		return "file"
	case unix.S_IFDIR:
		return "dir"
	case unix.S_IFLNK:
		return "symlink"
	case unix.S_IFBLK:
		return "dev"
	case unix.S_IFCHR:
		return "chardev"
	case unix.S_IFIFO:
		return "fifo"
	case unix.S_IFSOCK:
		return "socket"
	}
	return "other"
}

func c01Xattrs(m map[string][]byte) string {
	if len(m) == 0 {
		return "-"
	}
	var ks []string
	for k := range m {
		ks = append(ks, k)
	}
	sort.Strings(ks)
	var l []string
	for _, k := range ks {
		l = append(l, HexS(k)+":"+Hex(m[k]))
	}
	return strings.Join(l, ",")
}

// c01Walk emits one record per entry below (and including) root.
func (h *H) c01Walk(key, root, rel string) {
	var st unix.Stat_t
	if err := unix.Lstat(root, &st); err != nil {
		h.Rec(key+"-error", HexS(rel), HexS(err.Error()))
		return
	}
	kind := c01Kind(st.Mode)
	sha, target := "-", "-"
	switch kind {
	case "file":
		f, err := os.Open(root)
		if err != nil {
			h.Rec(key+"-error", HexS(rel), HexS(err.Error()))
			return
		}
		hh := sha256.New()
		_, err = io.Copy(hh, f)
		f.Close()
		if err != nil {
			h.Rec(key+"-error", HexS(rel), HexS(err.Error()))
			return
		}
		sha = hex.EncodeToString(hh.Sum(nil))
	case "symlink":
		t, err := os.Readlink(root)
		if err != nil {
			h.Rec(key+"-error", HexS(rel), HexS(err.Error()))
			return
		}
		target = HexS(t)
	}
	xa := map[string][]byte{}
	if names, err := xattr.LList(root); err == nil {
		for _, n := range names {
			if v, err := xattr.LGet(root, n); err == nil {
				xa[n] = v
			}
		}
	}
	rdev := uint64(0)
	if kind == "dev" || kind == "chardev" {
		rdev = uint64(st.Rdev)
	}
	size := int64(0)
	if kind == "file" {
		size = st.Size
	}
	h.Rec(key, HexS(rel), kind, fmt.Sprintf("%o", st.Mode&07777), U64(uint64(st.Uid)), U64(uint64(st.Gid)),
		I64(int64(st.Mtim.Sec)), I64(int64(st.Mtim.Nsec)), I64(size), sha, target, U64(rdev),
		fmt.Sprintf("%d:%d", st.Dev, st.Ino), U64(uint64(st.Nlink)), c01Xattrs(xa))
	if kind == "dir" {
		f, err := os.Open(root)
		if err != nil {
			h.Rec(key+"-error", HexS(rel), HexS(err.Error()))
			return
		}
		names, err := f.Readdirnames(-1)
		f.Close()
		if err != nil {
			h.Rec(key+"-error", HexS(rel), HexS(err.Error()))
			return
		}
		sort.Strings(names)
		for _, n := range names {
			r := n
			if rel != "" {
				r = rel + "/" + n
			}
			h.c01Walk(key, filepath.Join(root, n), r)
		}
	}
}

func c01NodeKind(t data.NodeType) string {
	switch t {
	case data.NodeTypeFile:
		return "file"
	case data.NodeTypeDir:
		return "dir"
	case data.NodeTypeSymlink:
		return "symlink"
	case data.NodeTypeDev:
		return "dev"
	case data.NodeTypeCharDev:
		return "chardev"
	case data.NodeTypeFifo:
		return "fifo"
	case data.NodeTypeSocket:
		return "socket"
	}
	return "other"
}

// c01DumpSnap emits the snapshot's nodes (first path component stripped).
func (h *H) c01DumpSnap(repo *repository.Repository, id restic.ID, rel string, top bool) {
	tree, err := data.LoadTree(context.Background(), repo, id)
	if err != nil {
		h.Rec("snap-error", HexS(rel), HexS(err.Error()))
		return
	}
	for item := range tree {
		if item.Error != nil {
			h.Rec("snap-error", HexS(rel), HexS(item.Error.Error()))
			return
		}
		n := item.Node
		r := n.Name
		if top {
			r = ""
		} else if rel != "" {
			r = rel + "/" + n.Name
		}
		var sum uint64
		for _, b := range n.Content {
			sz, ok := repo.LookupBlobSize(restic.BlobHandle{Type: restic.DataBlob, ID: b})
			if !ok {
				h.Rec("snap-error", HexS(r), HexS("blob not in index"))
			}
			sum += uint64(sz)
		}
		xa := map[string][]byte{}
		for _, a := range n.ExtendedAttributes {
			xa[a.Name] = a.Value
		}
		h.Rec("snap", HexS(r), c01NodeKind(n.Type), fmt.Sprintf("%o", c01UnixMode(n.Mode)), U64(uint64(n.UID)), U64(uint64(n.GID)),
			I64(n.ModTime.Unix()), I64(int64(n.ModTime.Nanosecond())), U64(n.Size), Itoa(len(n.Content)), U64(sum),
			HexS(n.LinkTarget), U64(n.Device), fmt.Sprintf("%d:%d", n.DeviceID, n.Inode), U64(n.Links), c01Xattrs(xa))
		if n.Type == data.NodeTypeDir && n.Subtree != nil {
			h.c01DumpSnap(repo, *n.Subtree, r, false)
		}
	}
}

func c01UnixMode(m os.FileMode) uint32 {
	r := uint32(m.Perm())
	if m&os.ModeSetuid != 0 {
		r |= 04000
	}
	if m&os.ModeSetgid != 0 {
		r |= 02000
	}
	if m&os.ModeSticky != 0 {
		r |= 01000
	}
	return r
}

func streamC01(h *H) {
	caps := c01Probe()
	cwd, _ := os.Getwd()
	defer os.Chdir(cwd)
	n := h.N(20, 500)
	for i := 0; i < n; i++ {
		sub := "main"
		switch {
		case i%5 == 2 && caps.farMtime:
			sub = "farmtime"
		case i%5 == 4 && caps.xattrBadUTF8:
			sub = "badxattr"
		}
		h.c01Case(sub, caps, i)
	}
}

func (h *H) c01Case(sub string, caps c01Caps, idx int) {
	budget := 4 + h.Intn(22)
	big := 0
	if h.Intn(4) == 0 {
		big = 1
	}
	if h.Thorough() {
		budget = 4 + h.Intn(120)
	}
	var files []*c01Ent
	root := h.c01Gen(0, &budget, caps, &big, &files)
	root.name = []byte("src")
	switch sub {
	case "farmtime": // F16: beyond time.UnixNano()'s range (after 2262-04-11); ext4 stores up to 2446
		pick := root
		if len(files) > 0 && h.Bool() {
			pick = files[h.Intn(len(files))]
		}
		pick.msec = []int64{10413792000, 9223372037, 9300000000, 15000000000}[h.Intn(4)]
	case "badxattr": // F7: xattr name that is not valid UTF-8
		pick := root
		if len(files) > 0 && h.Bool() {
			pick = files[h.Intn(len(files))]
		}
		if pick.xattrs == nil {
			pick.xattrs = map[string][]byte{}
		}
		pick.xattrs[[]string{"user.x\xff", "user.\xc3\x28", "user.ok\xed\xa0\x80"}[h.Intn(3)]] = []byte("v")
	}
	version := []string{"1", "2"}[h.Intn(2)]
	compression := []string{"off", "auto", "max"}[h.Intn(3)]
	packsize := []string{"4", "16", "128"}[h.Intn(3)]
	readconc := []string{"1", "2", "8"}[h.Intn(3)]
	sparse := h.Intn(3) == 0

	work := MkTemp("c01-")
	defer func() {
		// make everything removable again
		_ = filepath.Walk(work, func(p string, fi os.FileInfo, err error) error {
			if err == nil && fi.IsDir() {
				_ = os.Chmod(p, 0700)
			}
			return nil
		})
		_ = os.RemoveAll(work)
	}()
	srcRoot := filepath.Join(work, "src")
	where := map[*c01Ent]string{}
	h.Case(sub)
	h.Rec("cfg", version, compression, packsize, readconc, B(sparse), caps.String())
	if err := c01Create(root, srcRoot, where); err != nil {
		h.Rec("gen-error", HexS(err.Error()))
		h.End()
		return
	}
	if err := c01ApplyMeta(root, srcRoot, caps); err != nil {
		h.Rec("gen-error", HexS(err.Error()))
		h.End()
		return
	}
	h.c01Walk("src", srcRoot, "")

	be := mem.New()
	cli := NewCLI(be)
	cli.Extra = []string{"--compression", compression, "--pack-size", packsize}
	run := func(args ...string) CmdResult {
		ctx, cancel := context.WithTimeout(context.Background(), 300*time.Second)
		defer cancel()
		return cli.RunCtx(ctx, args...)
	}
	if r := run("init", "--repository-version", version); r.Err != nil {
		h.Rec("gen-error", HexS("init: "+r.Err.Error()))
		h.End()
		return
	}
	if err := os.Chdir(work); err != nil {
		panic(err)
	}
	rb := run("backup", "--read-concurrency", readconc, "src")
	if rb.Err != nil {
		h.Rec("res", Itoa(rb.Exit), "-")
		h.Rec("errtext", HexS(rb.Err.Error()+" | "+c01Tail(rb.Stderr)))
		h.End()
		return
	}
	repo := cli.OpenRepo()
	if err := repo.LoadIndex(context.Background(), restic.NoopTerminalCounterFactory); err != nil {
		panic(err)
	}
	var snID restic.ID
	var sn *data.Snapshot
	_ = data.ForAllSnapshots(context.Background(), repo, repo, nil, func(id restic.ID, s *data.Snapshot, err error) error {
		if err == nil {
			snID, sn = id, s
		}
		return nil
	})
	if sn == nil || sn.Tree == nil {
		h.Rec("res", Itoa(rb.Exit), "-")
		h.Rec("errtext", HexS("no snapshot"))
		h.End()
		return
	}
	h.c01DumpSnap(repo, *sn.Tree, "", true)
	dst := filepath.Join(work, "dst")
	args := []string{"restore", snID.String(), "--target", dst}
	if sparse {
		args = append(args, "--sparse")
	}
	rr := run(args...)
	h.Rec("res", Itoa(rb.Exit), Itoa(rr.Exit))
	if rr.Err != nil {
		h.Rec("errtext", HexS(rr.Err.Error()+" | "+c01Tail(rr.Stderr)))
	}
	h.c01Walk("dst", filepath.Join(dst, "src"), "")
	h.End()
}

func c01Tail(s string) string {
	if len(s) > 300 {
		return s[len(s)-300:]
	}
	return s
}

var _ = syscall.Stat_t{}
